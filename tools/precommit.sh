#!/bin/bash
# tools/precommit.sh "<commit message>": rebaseline every unit on the CLEAN tree, rerun every claimed check (evidence rewritten), validate MANIFEST, commit.
# Refuses to commit when /repo has uncommitted changes or any check does not exit 0.
set -u
cd /verif
if [ -n "$(git -C /repo status --porcelain)" ]; then echo "precommit: /repo working tree is not clean"; exit 3; fi
props=$(python3 -c "import json;print(' '.join(c['property_id'] for c in json.load(open('/verif/MANIFEST.json'))['checks']))")
python3 tools/mkmanifest.py || exit 3
props=$(python3 -c "import json;print(' '.join(c['property_id'] for c in json.load(open('/verif/MANIFEST.json'))['checks']))")
bad=0
for p in $props; do ./check $p --rebaseline > /tmp/precommit_$p.log 2>&1 || { echo "rebaseline $p failed"; tail -3 /tmp/precommit_$p.log; bad=1; }; done
rm -rf evidence/replay/*
for p in $props; do ./check $p --tier quick > /tmp/precommit_$p.log 2>&1; rc=$?; tail -1 /tmp/precommit_$p.log; [ $rc -ne 0 ] && { echo "check $p exit $rc"; bad=1; }; rm -f /tmp/precommit_$p.log; done
[ $bad -ne 0 ] && { echo "precommit: NOT committing"; exit 1; }
git add -A && git commit -qm "$1" && echo "committed: $1"
