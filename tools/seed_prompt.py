#!/usr/bin/env python3
"""prints the prompt given to a fresh sub-agent that seeds a property-breaking change (only the property text + a scratch worktree)"""
import json, sys
pid, wt = sys.argv[1], sys.argv[2]
p = {json.loads(l)['id']: json.loads(l) for l in open('/verif/properties.jsonl')}[pid]
print(f"""You are helping test a verification framework by seeding a realistic defect into a Rust library.

The library is "Heathcliff", a Rust port of Microsoft SEAL (BFV/BGV/CKKS homomorphic encryption). You have your own scratch git worktree of it at {wt} (work ONLY inside that directory; do not read or touch /repo or /verif). Build and test offline only: `cd {wt} && CARGO_TARGET_DIR={wt}/target cargo test --offline --lib` runs the existing suite (78 tests, about a minute after the first build).

This semantic property of the library should hold:

TITLE: {p['title']}
STATEMENT: {p['statement']}
QUANTIFIED OVER: {p['quantifier']['text']}
MAIN FILES: {', '.join(p['anchors']['files'])}

Your task: produce TWO different, independent source changes to the library (each a small, realistic edit that a maintainer could plausibly make by mistake: an off-by-one, a wrong operand or index, a dropped check, a swapped comparison, a boundary case mishandled, two sites that each look fine alone ...) such that each change
  1. still compiles,
  2. still passes the whole existing test suite unchanged (verify this yourself by running it), and
  3. BREAKS the property above - but only for something specific: a particular unusual input, boundary value, size, level, multi-step sequence of operations or fault point. Do NOT make a change that ordinary use or the existing tests would expose at once.
For each change also write a demonstration: a Rust test (put it in a new file under {wt}/tests/ as an integration test using the public API of the crate `heathcliff`, or if private items are needed as a #[test] added in a `#[cfg(test)] mod` of the relevant source file) that FAILS with your change applied and PASSES on the unchanged code. Run it both ways to confirm.

Deliver, in the directory {wt}/_seed/ (create it):
  change1.diff and change2.diff   - each produced with `git diff` against the unchanged worktree and containing ONLY the library change (not the demonstration);
  demo1.rs and demo2.rs          - the demonstration test source for each, with a comment at the top saying where the file must be placed (e.g. tests/demo1.rs) and the exact cargo command that runs it;
  notes.md                        - for each change: which part of the property it breaks, exactly what is needed for it to manifest, and the commands you ran with their outcomes (existing suite passes with the change; demo fails with it and passes without it).
Leave the worktree itself clean (git checkout the library files) when you are done, keeping only the _seed/ directory. Keep changes small (a few lines). Do not weaken or edit existing tests. Do not use the network.
In your final message, summarise the two changes in a few lines.""")
