#!/usr/bin/env python3
"""tools/mutate.py <repo-relative-file> <old-literal> <new-literal> <check args...>
Self-test helper (not a registered check): applies one literal replacement to /repo's working tree, runs ./check, restores the file."""
import subprocess, sys, os, shutil, tempfile
f, old, new = sys.argv[1:4]
p = os.path.join('/repo', f)
s = open(p).read()
n = s.count(old)
nth = int(os.environ.get('MUT_NTH', '0'))   # MUT_NTH=k: mutate only the k-th occurrence (1-based) when the literal is not unique
if (nth == 0 and n != 1) or nth > n:
    print('mutate: %d occurrences of %r' % (n, old)); sys.exit(3)
bk = tempfile.mkdtemp(prefix='evbk.', dir='/tmp'); shutil.copytree('/verif/evidence', bk + '/e')
if nth:
    parts = s.split(old); mutated = old.join(parts[:nth]) + new + old.join(parts[nth:])
else:
    mutated = s.replace(old, new)
open(p, 'w').write(mutated)
try:
    r = subprocess.run(['/verif/check'] + sys.argv[4:], capture_output=True, text=True)
    print(r.stdout[-3000:]); print('rc=%d' % r.returncode)
finally:
    open(p, 'w').write(s)
    shutil.rmtree('/verif/evidence'); shutil.copytree(bk + '/e', '/verif/evidence'); shutil.rmtree(bk)   # evidence never records a mutated tree
