#!/usr/bin/env python3
"""rewrites the seeds table at the end of DESIGN.md (section 9.4) from seeded/*/meta.json"""
import json, glob, re
p = '/verif/DESIGN.md'; s = open(p).read()
head = '| seed | what the change needs to show | outcome of `./check` |\n|---|---|---|\n'
i = s.index(head)
rows = []; c = u = m = 0
for d in sorted(glob.glob('/verif/seeded/C*/meta.json')):
    x = json.load(open(d)); need = x['needs_to_manifest']
    if need.startswith('see agent_notes'): need = '(see seeded/%s/agent_notes.md)' % x['seed_id']
    o = x['check_outcome']
    if 'CAUGHT' in o or o.startswith('caught'): c += 1
    elif o.startswith('UNDECIDED') or '; UNDECIDED (exit 2' in o: u += 1      # the latest outcome counts
    else: m += 1
    rows.append('| %s | %s | %s |' % (x['seed_id'], need.replace('|', '/')[:160], o.replace('|', '/')[:220]))
s = s[:i] + head + '\n'.join(rows) + '\n'
s = re.sub(r'\d+ caught, \d+ undecided \(exit 2\), \d+ missed', '%d caught, %d undecided (exit 2), %d missed' % (c, u, m), s)
open(p, 'w').write(s); print(c, u, m)
