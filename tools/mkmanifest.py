#!/usr/bin/env python3
"""Regenerates /verif/MANIFEST.json from the table below and validates it against the schema."""
import json, os, subprocess, sys
ROOT = os.path.dirname(os.path.dirname(os.path.abspath(__file__)))

TECH = 'contract-based deductive verification (Verus) of functions extracted verbatim from /repo on every run'
NOTE = ('Trusted base: Verus 0.2026.09.13 + Z3; the extractor vx/gen.py (every extracted item passes an erasure self-check against '
        '/repo on every run; rewrite rules R1-R10 are logged in the evidence); machine integers as modelled by Verus (every +,-,*,cast '
        'carries an overflow obligation); assumed specifications of std functions and external callees listed in the evidence '
        '(coverage.trusted_base, assumptions).')

CLAIMS = {
 'C07': ('The integer arithmetic with which the noise budget is computed, as contracts on the real code: poly_infty_norm returns exactly the maximum over all coefficients of the centered absolute value (c if c < ceil(Q/2), else Q - c) of multi-word residues, '
         'built on contracts of half_round_up_uint ((x+1)/2), the multi-word comparison family and sub_uint against the integer value of the limb sequences (unit c08_cmp); the last step of Decryptor::invariant_noise_budget (fragment) returns max(0, bits(Q) - bits(norm) - 1) with bits(x) = floor(log2 x) + 1 '
         '(get_significant_bit_count_uint proved against 2^(b-1) <= x < 2^b). The deterministic bounds the fresh-budget clause rests on are proved in unit c16_sample (ternary secret / mask in {-1,0,1}, error |e| <= 21, identical in every RNS component), '
         'and negation / addition / subtraction are exact word by word (unit c02_translate), so they change the phase exactly as the ring operation does. '
         'Not covered: that the reported budget equals the definition evaluated on the true phase (dot_product_ct_sk_array uses the NTT; RNSBase::compose_array (CRT) is not under contract), the fresh-budget and additive bounds themselves (need the ring norm inequality over the NTT/CRT representation), exact decryption below the threshold.', '5 C07'),
 'C08': ('Every listed word-level and multi-word primitive carries a contract against an integer specification (x mod q, limb-sequence value, '
         'gcd/Bezout definition, pow) and Verus discharges it for all moduli 2<=q<2^61, all operands and all word counts, function by function. '
         'Also: compare_uint and the five comparison wrappers, get_significant_uint64_count_uint, get_significant_bit_count_uint, half_round_up_uint, hamming_weight, get_power_of_two (units c08_cmp, c16_sample, c13_params). multiply_many_u64 returns the exact product (k words always hold a product of k words); add_uint_mod / add_uint_mod_inplace / sub_uint_mod return (a +- b) mod m for equal-length operands below the modulus (unit c08_uintmod). naf (unit c08_nt) returns digits that add up to the value, each plus or minus a power of two (for |value| <= 2^28: beyond 2^30 its top digit does not fit an i32), with every shift and product shown free of overflow and the loop terminating. Not covered: bit-serial divide_uint*/divide_u192 (assumed contract), multiply_uint general path, variable-length shifts, negate_uint_mod and the remaining *_uint_mod helpers.', '5 C08'),
 'C01': ('The arithmetic anchor of BFV encryption/decryption exactness: scaling_variant::multiply_add_plain and multiply_sub_plain are proved, for every plain modulus t, every level and every plaintext with coefficients below t, to add/subtract in every RNS word '
         'exactly D*m + floor((R*m + floor((t+1)/2))/t) mod q_j (D = floor(Q/t) mod q_j and R = Q mod t taken from the level constants) and to leave all other words untouched; a spec-level theorem shows this equals floor((Q*m + floor((t+1)/2))/t), '
         'i.e. round(Q*m/t) computed without big integers. ASSUMED: the level constants equal their definitions (C13). '
         'Encryptor::encrypt_zero_internal is proved to return a size-2 ciphertext on the requested level, in the representation of the scheme, with scale 1 and correction factor 1, to refuse unknown levels, missing keys and seed + public key, to ACCEPT every other request (live variant), '
         'and, for public-key encryption below the key level, to produce each polynomial as the first k*N words of the scheme\'s own divide-and-round routine (CKKS: NTT form, BFV: coefficient form, BGV: mod-t variant) applied to a zero encryption made one level up. '
         'ASSUMED: the metadata contracts of util::rlwe::encrypt_zero::* (their sampling is covered separately in C16). '
         'The arithmetic of BFV decryption after the key product, RNSTool::decrypt_scale_and_round, is proved word by word in unit c10_behz. Not covered: decrypt(encrypt(m)) == m itself (needs NTT/RLWE noise analysis), encrypt_internal (message addition), dot_product_ct_sk_array and the scheme dispatch of the decryptor, seed expansion, CKKS error.', '5 C01'),
 'C02': ('Word-level contracts on the BFV/BGV evaluation code that does not need the NTT or RNS theorems: negate / add / sub in all three call forms are proved, for every pair of operand sizes and every pair of BGV correction factors, '
         'to produce exactly (a +/- b) mod q_j in every RNS word of the common polynomials and the (negated, for a - b) extra polynomials of the longer operand, after multiplying both operands by scalars e1, e2 with e1*f1 = e2*f2 = f (mod t) '
         '(balance_correction_factors is proved for all factor pairs, including termination and absence of i64 overflow); invalid operands, different levels, different representations and mismatched scales are refused. '
         'The 51 polysmallmod primitives these operations call are proved exact (unit c06_polymod*). '
         'Multiplication: bgv_multiply / ckks_multiply / multiply_inplace / multiply / multiply_new produce, in every RNS word, the ciphertext convolution sum_{a+b=i} c1[a](.)c2[b] mod q_j accumulated in index order (with a lemma that the index pairs visited are exactly those with a+b=i inside both operands), '
         'the BGV correction factor is the product mod t, operands on different levels or in coefficient form are refused (unit c02_mul); for BFV the lifting of both operands to base q and Bsk in NTT form (BEHZ steps 1-3) is checked as fragments with abstract RNS tools (unit c02_bfvmul). '
         'Relinearisation shares the mod-down fragments of key switching (unit c04_kswitch). The BEHZ tools bfv_multiply calls (fastbconv_m_tilde, sm_mrq, fast_floor, fastbconv_sk) are proved word by word in unit c10_behz. Not covered: BEHZ steps 4-8 of bfv_multiply as a whole, squaring (unsafe aliasing), the accumulation half of key switching, plaintext-operand variants, that word-level results decrypt to the ring operation (needs NTT/CRT theory and noise analysis).', '5 C02'),
 'C03': ('The scale-bookkeeping half of the property, as contracts on the evaluator code (floats are opaque: WHICH float operation is applied to WHICH operands is what is proved, not its value): '
         'ckks_multiply records exactly scale(a)*scale(b) and refuses (no normal return) when Evaluator::is_scale_within_bounds fails; is_scale_within_bounds compares floor(log2(scale)) with the total coefficient-modulus bit count of the level for CKKS and the plain-modulus bit count for BFV/BGV; '
         'rescale_to_next / rescale_to divide the scale by each dropped prime, in chain order, and mod_switch leaves it unchanged (unit c05_switch); add / sub refuse operands whose scales are not close and operands on different levels (unit c02_translate); '
         'multiply refuses operands on different levels and coefficient-form operands, and its data words are the ciphertext convolution sum_{a+b=i} c1[a](.)c2[b] mod q_j (unit c02_mul). '
         'Not covered: the first half of the property (decoded result within the worst-case error: needs NTT/embedding theory, floating point and noise analysis), ckks_square (unsafe raw-pointer aliasing), multiply_plain, the values of float operations.', '5 C03'),
 'C04': ('GaloisTool::apply is proved to be the substitution X -> X^g on a zero-padded coefficient vector for every N = 2^k (k <= 17) and every odd g < 2N: result[(i*g) mod N] = (-1)^floor(i*g/N) * operand[i] mod q, '
         'with the number-theoretic lemma that i -> i*g mod N is injective for odd g (so every output word is written exactly once); get_elt_from_step returns 3^s mod 2N (3^(N/2-|s|) for right rotations, 2N-1 for step 0) and refuses |s| >= N/2; '
         'get_index_from_elt; Evaluator::apply_galois_plain* (three forms) apply the map to a plaintext of any stored length and refuse invalid plaintexts and even elements. '
         'Key switching: the mod-down half of Evaluator::switch_key_inplace_internal (division of each accumulated key component by the special prime and addition into the ciphertext) is verified as two fragments (BFV/CKKS and BGV branch) with the transforms abstract: '
         'for every level below the key level, every component and coefficient, the special-prime component is brought back with the table of the SPECIAL prime (last key prime), rounded with q_k/2 (resp. kept modulo t with q_k^-1 mod t in BGV), reduced to prime j, transformed with table j, '
         'subtracted, multiplied by q_k^-1 mod q_j and added to word (i, j, c) of the ciphertext; GaloisTool::new accepts exactly 2^1..2^17. '
         'ASSUMED: disjointness of the unsafe alias t_last from the regions written (stated in the unit). '
         'Not covered: the first half of switch_key_inplace_internal (decomposition, lazy 128-bit accumulation over the key: iterator closures), the NTT-domain permutation tables, apply_galois_inplace on ciphertexts, NAF-composed rotations (rotate_internal), conjugation.', '5 C04'),
 'C05': ('Every API form of mod_switch_to_next / mod_switch_to / rescale_to_next / rescale_to and the NTT-plaintext variants is verified against a ghost model of the modulus chain: '
         'the loops terminate (decreases on the level index), the result is exactly on the requested level, upward moves / past-the-last-level / rescale outside CKKS / wrong representation / invalid operands are refused '
         '(postconditions on normal return), plain switching leaves the scale unchanged, rescaling divides it by each dropped prime in order, the BGV correction factor is multiplied by q_last^-1 mod t, '
         'and each result polynomial is the first (k-1)N words of the scheme\'s divide-and-round routine of the source level applied to the source polynomial. '
         'Not covered: that the divide-and-round routines preserve the message (C10 residue contracts are assumed here), noise.', '5 C05'),
 'C06': ('Three groups of contracts. (1) src/valcheck.rs: is_metadata_valid_for / is_buffer_valid / is_data_valid_for / is_valid_for of ciphertexts and plaintexts return exactly the validity predicate written from the property statement '
         '(level on the data part of the chain, sizes match the level, size 0 or 2..16, scale and correction-factor rules per scheme, buffer length, every residue below its modulus). '
         '(2) src/util/polysmallmod.rs: all 51 coefficient-wise primitives (modulo, negate, add, sub, scalar and operand variants, dyadic product; component, _p and _ps level, in-place and not) return word by word the exact residue, hence canonical residues. '
         '(3) The mod-switch / rescale API of the evaluator refuses invalid operands and wrong representations and its three call forms satisfy the same result relation (shared with C05). '
         'Not covered yet: validity of the results of add/sub/multiply/relinearize/Galois operations, key validity checkers.', '5 C06'),
 'C09': ('Local contracts of the NTT code, for every modulus 2 <= q < 2^61: the lazy arithmetic (add, sub, mul_root, mul_scalar, guard) keeps values in the documented ranges and congruent; the forward (Harvey) butterfly maps x,y in [0,4q) to '
         'x+wy, x-wy (mod q) in [0,4q) and the inverse (Gentleman-Sande) butterfly maps [0,2q) to x+y, (x-y)w in [0,2q) - both extracted as fragments of the innermost loop bodies of transform_to_rev / transform_from_rev; '
         'ntt_negacyclic_harvey / inverse_ntt_negacyclic_harvey reduce the lazy result to the exact canonical residue; dyadic products are exact (unit c06_polymod2). '
         'ASSUMED / not covered: the loop nest of the transform (which index pairs meet which root, iterator closures over split_at_mut) is an uninterpreted function with an assumed range contract, so that the transform equals the evaluation map, '
         'is inverted by the inverse transform and turns negacyclic convolution into pointwise products is NOT decided. '
         'Root tables (unit c09_tables): NTTTables::new, for every modulus and every degree 2..2^17, returns Ok only with q = 1 (mod 2N), a root g with g^N = -1 (mod q), root_powers[rev(i)] the Shoup operand of g^i and inv_root_powers[rev(i-1)+1] that of g^-i for every 1 <= i < N (entry 0 is 1; all indices shown in range and distinct), N^-1 mod q, and the lazy-arithmetic handler for the same modulus; is_primitive_root, try_primitive_root (random search, terminates within its round limit, never accepts a non-root) and try_minimal_primitive_root (returns the least of the odd powers g^(2k+1), k < N, of the root found, and the lemma that each of them is again a root of X^N+1) are proved against their definitions. '
         'The twelve ntt / intt wrappers of polysmallmod.rs (unit c09_wrap: lazy and exact, one component / one polynomial / several polynomials) are proved to pass component j of every polynomial i - the window [(i*k+j)*N, (i*k+j+1)*N) - through table j and to leave every other word unchanged, with the documented input / output ranges, over the four per-table transforms as uninterpreted functions. '
         'ASSUMED: u64::reverse_bits restricted to n-bit values is an involution fixing 0 and 2^n-1; rand yields arbitrary values. Not decided: that Err is returned only when no root exists (the search is probabilistic), and that the least odd power is independent of the root found (needs the group structure), i.e. determinism across contexts.', '5 C09'),
 'C10': ('RNSTool::divide_and_round_q_last_inplace and mod_t_and_divide_q_last_inplace are proved, for every base size, degree, coefficient and canonical input, to return in each word exactly the residue formula '
         'of the algorithm (all lazy additions shown free of overflow, every slice in bounds), and two spec-level theorems give the integer reading: if the input residues are those of one integer X then each output word is '
         'floor((X + q_k/2)/q_k) mod q_i (round to nearest, identically in every component), respectively Y mod q_i with q_k*Y = X (mod t) for the BGV variant. '
         'The NTT-form variants (divide_and_round_q_last_ntt_inplace, mod_t_and_divide_q_last_ntt_inplace) are proved word by word against the same formulas with the forward/inverse transforms as uninterpreted functions of (table, input) with their documented ranges: the rounding constant q_k/2, its correction, the negation and q_k^-1 steps and the table index used for each component are pinned. '
         'ASSUMED: the constants RNSTool::new stores (inv_q_last_mod_q etc.) equal their definitions; linearity of the NTT (so the NTT-form result is the transform of the coefficient-form result) is not used or proved. '
         'Fast base conversion and the BEHZ tools (unit c10_behz): BaseConverter::fast_convert_array returns in word (i, j) exactly (sum_l [x_l * (Q/q_l)^-1]_{q_l} * [Q/q_l]_{p_i}) mod p_i for every base size and coefficient count (the two-word dot product shown free of overflow for up to 64 primes of up to 61 bits), and refuses inconsistent lengths; '
         'fastbconv_m_tilde (scale by m_tilde, convert q -> Bsk and q -> {m_tilde}), sm_mrq ((x + q*[-x*q^-1]_centered) * m_tilde^-1 per Bsk prime), fast_floor ((x_Bsk - FastBConv(x_q)) * q^-1) and fastbconv_sk (Shenoy-Kumaresan with the centered alpha correction) are proved word by word against these formulas, and so is RNSTool::decrypt_scale_and_round (BFV decryption: scale by gamma*t, convert to {t, gamma}, multiply by -q^-1, subtract the centered gamma component, multiply by gamma^-1 mod t). '
         'ASSUMED: shapes and operands stored by RNSBase::initialize / RNSTool::new (sizes, operand quotients, Bsk = B U {m_sk}, m_tilde below every Bsk prime). '
         'RNSBase::decompose / compose (unit c08_uintmod): decompose stores value mod q_i in word i (a single-modulus base is left as it is), compose returns sum_i ((x_i * P_i^-1) mod q_i) * P_i mod Q with every intermediate below Q, and the CRT lemma shows that this integer has residue x_i modulo every q_i (the punctured products, their inverses and divisibility facts established by the external `initialize` are ASSUMED); RNSBase::new accepts only non-empty, zero-free, pairwise coprime bases (c13_rnsbase). Not covered yet: that the BEHZ word formulas compose to the exact centered integer result (error analysis), decompose_array / compose_array (iterator closures), exact_convey (uses f64), RNSTool::new.', '5 C10'),
 'C16': ('Two groups of contracts. (1) BlakeRNG as a data structure with an abstract view: the generator is a position in ONE byte stream determined by the seed (block c of the stream is the BLAKE3 XOF of seed||le64(c), the XOF being an uninterpreted function); '
         'representation invariant (the buffer holds block counter-1, buffer_current bytes consumed) established by from_seed and preserved by refill_buffer, fill_bytes, next_u32, next_u64; fill_bytes hands out exactly the next |dest| stream bytes and advances the position by |dest| '
         '(so output does not depend on how reads are chunked: a corollary of the contract), next_u32/next_u64 read the next 4/8-aligned little-endian word. '
         '(2) Samplers: sample::ternary stores one value of {-1,0,1} per coefficient, identically in every RNS component; the centered-binomial closure yields |e| <= 21 (Hamming weights of 21+21 random bits; hamming_weight proved equal to the bit count) '
         'and the sampling loop stores e identically in every component (for moduli > 21: RESTRICTION found by the proof, see DESIGN.md); sample::uniform stays below each modulus. '
         'ASSUMED: the blake3 and rand crates (support of Uniform only), the unsafe unaligned-pointer word reads modelled as little-endian. '
         'Not covered: statistical quality / distinctness between seeds / freshness of entropy (not expressible as a contract), encrypt_zero plumbing, seed expansion of ciphertexts and keys.', '5 C16'),
 'C19': ('Coefficient placement of LWE extraction and assembly, as contracts on the real code: polymod::negacyclic_shift / negacyclic_shift_p compute X^s * c in Z_q[X]/(X^n+1) for every power-of-two n and every shift (coefficient i goes to (s+i) mod n, negated when floor((s+i)/n) is odd); '
         'Evaluator::extract_lwe (coefficient-form branch verified, NTT branch reduced to it by the verified recursion over an abstract inverse transform) returns c1 = X^(2n-term) * ct[1] in every RNS component and c0[j] = coefficient `term` of component j of ct[0], copies level / scale / correction factor, and refuses invalid or wrong-size inputs; '
         'LWECiphertext::assemble_lwe lays out a size-2 coefficient-form ciphertext with c0[j] as constant coefficient of component j (all other coefficients of polynomial 0 zero) and c1 as polynomial 1; a spec-level lemma composes the two (extract then assemble puts coefficient `term` at the constant position). '
         'Not covered: that the assembled ciphertext DECRYPTS to the coefficient (needs the ring identity <X^-t c1, s> and noise), field_trace_inplace, pack_lwe_ciphertexts (unsafe aliasing, key switching), divide_by_poly_modulus_degree_inplace (iterator closures).', '5 C19'),
 'C11': ('The data movement and index map of the batch encoder, with the plain-modulus NTT as an uninterpreted pair of functions: BatchEncoder::new builds matrix_reps_index_map with, for every i < N/2, map[i] = bitrev((3^i mod 2N - 1)/2) and map[i + N/2] = bitrev((2N - 3^i mod 2N - 1)/2) '
         '(3^i mod 2N proved via the loop pos <- 3*pos & (2N-1), all intermediate values odd and in range), refuses CKKS contexts and contexts without set parameters; '
         'encode writes value i at word map[i] (missing values zero), refuses over-long inputs, and returns the inverse NTT of exactly that slot matrix; decode returns word map[i] of the forward NTT of the zero-padded polynomial and refuses invalid or NTT-form plaintexts; '
         'encode_polynomial reduces each coefficient modulo t; a spec-level lemma composes encode and decode into the identity GIVEN NTT inversion. '
         'ASSUMED: the index map is a permutation of [0,N) (order of 3 modulo 2N and bijectivity of bit reversal are not proved), NTT inversion, u64::reverse_bits uninterpreted. '
         'Not covered: that sums/products of encoded polynomials decode slot-wise (needs the NTT to be the evaluation map), the link between Galois elements and row rotation / column swap (same), values >= t given to encode (not reduced by the code; outside the property\'s domain Z_t).', '5 C11'),
 'C12': ('The integer entry point only: CKKSEncoder::encode_internal_i64_single is proved, for every i64 (negative values and values larger than a single prime included), every level and every chain, to produce the constant polynomial whose every coefficient of RNS component j is value mod q_j '
         '(so all components hold the residues of ONE integer), at scale 1 and on the requested level, and to refuse unknown levels, non-CKKS contexts and values whose bit count + 2 reaches the total modulus size. '
         'Coefficient-list encoder (unit c12_f64, a fragment of encode_internal_f64_polynomial from the destination reset to the refusal of oversized inputs, over an ASSUMED order/rounding model of f64 in which values are opaque): the destination is resized for the level and zero everywhere whatever it held, an empty list and inputs whose SCALED magnitude reaches the total modulus size are refused, and the bit count that selects the 64 / 128 / multi-word path bounds every rounded scaled coefficient that path converts (this obligation exposed defect D12, repaired). '
         'Not covered (the larger part of the property): the floating-point arithmetic itself on every path (vector / single real / single complex, the conversion loops of the three magnitude branches, FFT and root tables, decode) - Verus has no model of f64 arithmetic, rounding or casts, '
         'so "rounded scaled canonical embedding up to double-precision error" cannot be stated as a contract; those paths are NOT decided.', '5 C12'),
 'C13': ('The helper functions parameter generation and identification are built from, each against an integer specification: util::get_primes returns exactly `count` moduli, strictly decreasing (hence distinct), each of exactly bit_size bits, congruent to 1 modulo the factor (2N) and accepted by the primality test, '
         'never underflows, terminates, and refuses (panics) rather than returning a short list; util::is_prime never accepts a value below 2 or a proper multiple of 2,3,5,7,11,13, terminates, and answers true (beyond the six small primes) only after ALL of its rounds passed: with n-1 = d*2^r, d odd, base 2 and every further drawn base a satisfied a^d = +-1 or one of the first max(r-1,1) repeated squares = -1 (its bases are random, so "accepted => prime" is probabilistic and is NOT a contract); '
         'Modulus::new / set_value store that answer, the bit count and the Barrett constants equal to their definitions, and refuse values of more than 61 bits or equal to 1; get_power_of_two returns k exactly when the value is 2^k and -1 otherwise; '
         'EncryptionParameters::compute_parms_id hashes exactly the words (scheme, N, q_1..q_k, t) in that order and refuses the reserved all-zero identifier, so the identifier is a deterministic function of the parameters (collision freedom is SHA-256\'s, assumed); set_poly_modulus_degree / set_coeff_modulus / set_plain_modulus each leave the identifier equal to the hash of the parameters they return, in whatever order they are called. '
         'HeContext::validate (unit c13_validate, the whole function): it never panics, and it leaves parameter_error == Success only if every rung of the ladder held - scheme set, 1..64 moduli each of 2..60 bits, degree a power of two in 2..131072, total bit count (the exact bit length of the product) within the security table (the table is written down a second time as the specification and CoeffModulus::max_bit_count / he_standard_params_* are proved against it), RNSBase and NTT-table construction succeeded, and for BFV/BGV a 2..60-bit plain modulus coprime to every q_i and smaller than their product, for CKKS a zero plain modulus; on success using_fft / using_ntt are set, using_fast_plain_lift implies every q_i > t, using_descending_modulus_chain is exactly q_1 > .. > q_k, and the lifting constants equal their definitions ((t+1)/2 and q_i - t; 2^63 and the residue of -2^64). '
         'The contracts validate assumes of its callees are proved where the callee is within reach: RNSBase::new accepts only non-empty, zero-free, pairwise coprime bases (unit c13_rnsbase, with its product/inverse builder `initialize` external), NTTTables::new only with q = 1 mod 2N (unit c09_tables), multiply_many_u64 returns the exact product (unit c08_mul); ASSUMED: create_ntt_tables (an iterator over NTTTables::new); RNSTool::new, GaloisTool::new, divide_uint, decompose are opaque, so the remaining precomputed constants are not compared with definitions. '
         'Not covered: the chain construction in HeContext::new / create_next_context_data (HashMap, Arc::as_ptr().cast_mut(), iterator closures) - the chain model used by the other units (specs/common/ctx_env.vinc) remains an ASSUMPTION; CoeffModulus::create (HashMap).', '5 C13'),
 'C15': ('Serializers without context (scalars, Vec<T>, Modulus, ParmsID, SchemeType, Plaintext, EncryptionParameters, byte-width packing helpers) are verified '
         'against an abstract model of std::io::{Read,Write} quantified over all implementations: Ok implies the complete encoding was written / exactly one encoding '
         'consumed, and no unwrap/panic is reachable. Ciphertexts (unit c14_cipher): serialize_full / deserialize_full and the compact SerializableWithHeContext serialize / deserialize / serialized_size are proved complete-or-error and panic-free over the same stream model, the readers on every (truncation of a) stream whose header is consistent with the context (parms id of a level, size <= 16, canonical seed flag). The Cipher1d container forms (unit c14_cont) propagate every element error and never panic on streams in the domain of the element readers. Keys, Cipher2d / Cipher3d, plaintext containers, the selected-terms element format and PolynomialSerializer are not covered.', '5 C15'),
 'C14': ('For the same context-free types: serialize appends exactly enc(x), serialized_size == |enc(x)| == bytes written, deserialize consumes exactly |enc(v)| bytes and '
         '(for canonical input) those bytes are enc(v); byte-width packing read/write are mutually consistent for every limit 0..8. Ciphertexts (unit c14_cipher), both formats: the full-width and the compact serializer append exactly one encoding function of the object (header, scheme field, seed flag, residues packed at the byte width of each modulus, seed words), the announced sizes equal the length of that encoding, and the readers consume exactly the bytes of one encoding and return the object whose encoding those bytes are (every residue within its byte width, untouched words zero), seed-compressed input restored to its expanded form (expansion itself external). The container Cipher1d (unit c14_cont), context-dependent and selected-terms forms: writers append the 8-byte count followed by the element encodings in order (also for the empty container), size functions announce exactly that, readers consume the elements one after the other starting where the previous one ended and return them in order - with the element serializers as contracts (uninterpreted element encodings; proved for the compact element format in c14_cipher, ASSUMED for the selected-terms element format). Not covered: the selected-terms element format, Cipher2d / Cipher3d and the plaintext containers, keys, PolynomialSerializer, the cross-context half, ExpandSeed internals.', '5 C14'), 'C20': ('Index safety and acceptance of the 2-D convolution encoders, for every shape admitted by the helper invariant (blocks between kernel and tensor size, one batch-block x channel-block x height-block x width-block fits the slot count; every dimension up to 4096): '
         'Conv2dHelper::encode_weights_bfv, encode_inputs_bfv and decrypt_outputs_bfv are proved free of out-of-bounds accesses, division by zero and arithmetic overflow in their 6- and 8-deep loop nests (source and destination index formulas bounded by nonlinear-arithmetic lemmas), to terminate, '
         'and to hand the encoder only coefficient lists it accepts (BatchEncoder::encode_polynomial_new proved, in unit c11_batch, to accept every list of at most N values and to reduce each coefficient modulo t); ceil_div is proved against its definition. '
         'ASSUMED: the helper invariant itself (Conv2dHelper::new iterates reversed inclusive ranges, which Verus cannot take). '
         'Not covered (most of the property): that the homomorphic product / correlation equals the plaintext one (needs polynomial-multiplication semantics of the ciphertext operations), the placement formulas as values (only their ranges), output decoding / packing, all matmul variants (cheetah, bolt_*), the RNS-plaintext wrapper, CKKS variants.', '5 C20'),
}

NOT_APPLICABLE = {
 'C17': 'linearizability under thread interleavings: Kani has no thread support and Verus reasons about concurrency only through its own lock/permission types, not std::sync::RwLock with raw-pointer aliasing; a lock-invariant proof would be a model, not the code',
 'C18': 'agreement across n parties and all message delivery orders is a whole-history property; the per-call code sits behind iterator closures, context plumbing and serialization and no contract within reach connects it to "keys correspond to the sum of secret keys"',
}

PENDING = []


def main():
    checks = []
    for pid in sorted(CLAIMS):
        text, ref = CLAIMS[pid]
        checks.append({
            'property_id': pid,
            'quick_cmd': './check %s --tier quick' % pid,
            'thorough_cmd': './check %s --tier thorough' % pid,
            'evidence_file': '/verif/evidence/%s.json' % pid,
            'replay_cmd_template': './check %s --replay {path}' % pid,
            'engine': 'verus',
            'level_claimed': {'category': 'proof', 'text': text, 'design_ref': 'DESIGN.md section ' + ref},
            'level_note': NOTE,
            'technique': TECH,
        })
    na = [{'property_id': k, 'reason': v} for k, v in sorted(NOT_APPLICABLE.items())]
    for p in PENDING:
        if p not in CLAIMS and p not in NOT_APPLICABLE:
            na.append({'property_id': p, 'reason': 'not claimed yet: no contract unit for this property is complete and green on the unchanged tree (see DESIGN.md section 9)'})
    commits = subprocess.run(['git', '-C', '/repo', 'log', '--format=%h %s'], capture_output=True, text=True).stdout.strip().split('\n')
    m = {
        'version': 1,
        'setup_cmd': 'true',
        'hooks': {
            'guard': 'heathcliff_verif',
            'enable': 'none needed for the Verus units (they are generated from the source text of /repo on every run); Kani harnesses, where used, are compiled into the crate under cfg(kani)',
            'baseline_off_cmd': 'cd /repo && cargo test --workspace --no-fail-fast --offline',
            'source_commits': [c for c in commits if not c.endswith('snapshot')],
            'add_only': True,
        },
        'engines': [
            {'name': 'verus', 'path': 'vx/run.py', 'serves_properties': sorted(CLAIMS),
             'kind_free_text': 'deductive verifier (Verus 0.2026.09.13, Z3) run on units generated by vx/gen.py: real functions extracted from /repo, contracts and ghost text from specs/*.vspec'},
        ],
        'checks': checks,
        'not_applicable': sorted(na, key=lambda x: x['property_id']),
        'notes': 'Exit codes of ./check: 0 all obligations discharged; 1 + VIOLATION line: an obligation discharged on the reference tree fails semantically; 2: undecided (extraction error, resource limit, tool failure) - never a VIOLATION. /repo carries `fix:` commits for defects found by these checks (known_findings.json).',
    }
    json.dump(m, open(os.path.join(ROOT, 'MANIFEST.json'), 'w'), indent=1)
    r = subprocess.run(['python3-vt', '-c', 'import json,jsonschema;jsonschema.validate(json.load(open("%s/MANIFEST.json")),json.load(open("/root/.vp/MANIFEST.schema.json")));print("MANIFEST valid")' % ROOT])
    sys.exit(r.returncode)


if __name__ == '__main__':
    main()
