#!/bin/bash
# tools/confirm_seed.sh <worktree> <n> : confirm a seeded change in its scratch worktree (self-test helper)
#  1. with change<n>.diff applied the existing suite passes; 2. demo<n> fails with it; 3. demo<n> passes without it.
wt="$1"; n="$2"; cd "$wt" || exit 3
export CARGO_TARGET_DIR="$wt/target" CARGO_NET_OFFLINE=true
git checkout -q -- . ; rm -f tests/verif_demo.rs
if head -8 _seed/demo$n.rs | grep -q "tests/"; then where=tests; elif head -5 _seed/demo$n.rs | grep -qi "src/"; then where=src; else where=tests; fi
mkdir -p tests
if [ "$where" = tests ]; then cp _seed/demo$n.rs tests/verif_demo.rs; else echo "demo$n must be placed inside a source file: see header"; head -8 _seed/demo$n.rs; fi
git apply _seed/change$n.diff || { echo "APPLY-FAILED"; exit 3; }
cargo test --offline --lib 2>&1 | grep -E "^test result|FAILED|panicked" | head -5 > /tmp/confirm_$$.txt; suite=$(grep -c "test result: ok. 78 passed" /tmp/confirm_$$.txt)
cargo test --offline --test verif_demo 2>&1 | grep -E "^test result" | head -3 > /tmp/confirm2_$$.txt; with=$(cat /tmp/confirm2_$$.txt | tr '\n' ' ')
git checkout -q -- .
cargo test --offline --test verif_demo 2>&1 | grep -E "^test result" | head -3 > /tmp/confirm3_$$.txt; without=$(cat /tmp/confirm3_$$.txt | tr '\n' ' ')
rm -f tests/verif_demo.rs
echo "seed $wt #$n: suite_ok_with_change=$suite | demo WITH change: $with | demo WITHOUT change: $without"
rm -f /tmp/confirm_$$.txt /tmp/confirm2_$$.txt /tmp/confirm3_$$.txt
