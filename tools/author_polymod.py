#!/usr/bin/env python3
"""One-off authoring helper: writes specs/c06_polymod.vspec (contracts for src/util/polysmallmod.rs).
The generated .vspec is the committed artifact; this script only saves typing for ~60 near-identical functions."""
OUT = '/verif/specs/c06_polymod.vspec'

# name -> ins (input slices), scalar kind, word spec, word precondition, style of the component-level function
FAM = {
 'modulo':           dict(ins=['component'], scalar=None, spec='({c0} as int) % {q}', pre=None, style='zip_rc', inplace=False),
 'negate':           dict(ins=['component'], scalar=None, spec='w_neg({c0} as int, {q})', pre='({c0} as int) <= {q}', style='zip_cr', inplace=True),
 'add':              dict(ins=['comp1', 'comp2'], scalar=None, spec='(({c0} as int) + ({c1} as int)) % {q}', pre='({c0} as int) + ({c1} as int) < 2 * {q}', style='index', inplace=True),
 'sub':              dict(ins=['comp1', 'comp2'], scalar=None, spec='(({c0} as int) - ({c1} as int)) % {q}', pre='-{q} <= ({c0} as int) - ({c1} as int) < {q}', style='index', inplace=True),
 'add_scalar':       dict(ins=['comp'], scalar='u64', spec='(({c0} as int) + (scalar as int)) % {q}', pre='({c0} as int) + (scalar as int) < 2 * {q}', style='zip_rc', inplace=True),
 'sub_scalar':       dict(ins=['comp'], scalar='u64', spec='(({c0} as int) - (scalar as int)) % {q}', pre='-{q} <= ({c0} as int) - (scalar as int) < {q}', style='zip_rc', inplace=True),
 'multiply_scalar':  dict(ins=['comp'], scalar='u64', spec='(({c0} as int) * (scalar as int)) % {q}', pre=None, style='zip_rc', inplace=True),
 'multiply_operand': dict(ins=['comp'], scalar='operand', spec='(({c0} as int) * (scalar.operand as int)) % {q}', pre=None, style='zip_rc', inplace=True),
 'dyadic_product':   dict(ins=['comp1', 'comp2'], scalar=None, spec='(({c0} as int) * ({c1} as int)) % {q}', pre=None, style='index', inplace=True),
}
PNAMES = {1: ['poly'], 2: ['poly1', 'poly2']}
PSNAMES = {1: ['polys'], 2: ['polys1', 'polys2']}

out = []
def w(s=''): out.append(s)

w('''//@ unit c06_polymod
//@ property C06 C02 C09
//@ note src/util/polysmallmod.rs: every coefficient-wise primitive returns, word by word, the exact residue (hence canonical residues), at component, polynomial (_p) and polynomial-array (_ps) level
//@ include common/header.vinc
//@ include common/base.vinc
//@ include common/std_env.vinc
//@ include common/modulus.vinc
//@ include common/barrett.vinc
pub mod polymod { pub use super::*; }

//@ import c08_word fn src/util/basic.rs multiply_u64_u64
//@ import c08_word fn src/util/basic.rs multiply_u64_high_word
//@ import c08_word fn src/util/basic.rs add_u64
//@ import c08_word fn src/util/basic.rs sub_u64
//@ import c08_word fn src/util/uintsmallmod.rs barrett_reduce_u64
//@ import c08_word fn src/util/uintsmallmod.rs add_u64_mod
//@ import c08_word fn src/util/uintsmallmod.rs sub_u64_mod
//@ import c08_word fn src/util/uintsmallmod.rs multiply_u64_mod
spec fn operand_wf(y: &MultiplyU64ModOperand, q: int) -> bool {
    &&& (y.operand as int) < q
    &&& y.quotient as int == ((y.operand as int) * B()) / q
}
//@ extract! struct src/util/uintsmallmod.rs MultiplyU64ModOperand
//@ import c08_word fn src/util/uintsmallmod.rs multiply_u64operand_mod
impl Modulus {
//@ extract fn src/modulus.rs reduce impl=Modulus
//@ sig
    requires self.wf(),
    ensures r as int == (value as int) % self.v(),
//@ end
}

spec fn w_neg(c: int, q: int) -> int { if c == 0 { 0 } else { q - c } }
spec fn mods_wf(m: Seq<Modulus>) -> bool { forall|j: int| 0 <= j < m.len() ==> (#[trigger] m[j]).wf() }
// word w of a k-component layout with `degree` words per component belongs to component (w / degree) % k
proof fn lemma_block(wd: int, j: int, degree: int)
    requires degree > 0, j >= 0, j * degree <= wd < (j + 1) * degree,
    ensures wd / degree == j,
{
    assert((j + 1) * degree == j * degree + degree) by(nonlinear_arith);
    lemma_fundamental_div_mod_converse(wd, degree, j, wd - j * degree);
}
proof fn lemma_block2(wd: int, p: int, j: int, degree: int, k: int)
    requires degree > 0, k > 0, p >= 0, 0 <= j < k, (p * k + j) * degree <= wd < (p * k + j + 1) * degree,
    ensures (wd / degree) % k == j, wd / degree == p * k + j,
{
    assert(p * k + j >= 0) by(nonlinear_arith) requires p >= 0, k > 0, j >= 0;
    lemma_block(wd, p * k + j, degree);
    lemma_fundamental_div_mod_converse(p * k + j, k, p, j);
}
proof fn lemma_ps_index(off: int, c: int, i: int, dg: int, gk: int, gd: int)
    requires off == i * gd, gd == dg * gk, 0 <= c < gd, dg > 0, gk > 0, i >= 0,
    ensures ((off + c) / dg) % gk == c / dg, 0 <= c / dg < gk, (off + c) / dg == i * gk + c / dg,
{
    let j = c / dg; lemma_fundamental_div_mod(c, dg); lemma_mod_bound(c, dg); lemma_div_pos_is_pos(c, dg);
    assert(j < gk) by(nonlinear_arith) requires c == dg * j + c % dg, 0 <= c % dg, c < dg * gk, dg > 0;
    assert((i * gk + j) * dg == off + j * dg && (i * gk + j + 1) * dg == off + j * dg + dg) by(nonlinear_arith) requires off == i * gd, gd == dg * gk;
    assert(j * dg == dg * j) by(nonlinear_arith);
    lemma_block2(off + c, i, j, dg, gk);
}
proof fn lemma_splice(o: Seq<u64>, n: Seq<u64>, a: int, b: int, sub: Seq<u64>)
    requires 0 <= a <= b <= o.len(), sub.len() == b - a, n == o.subrange(0, a) + sub + o.subrange(b, o.len() as int),
    ensures n.len() == o.len(), forall|i: int| 0 <= i < a ==> n[i] == o[i], forall|i: int| a <= i < b ==> n[i] == sub[i - a],
        forall|i: int| b <= i < o.len() ==> n[i] == o[i],
{ }
''')

def args_at(ins, idx):
    return {('c%d' % i): '%s[%s]' % (nm, idx) for i, nm in enumerate(ins)}

import os
ONLY = os.environ.get('FAMS')
UNIT = os.environ.get('UNIT', 'zz_polymod_dbg')
if ONLY: OUT = '/verif/specs/%s.vspec' % UNIT
for name, f in FAM.items():
    if ONLY and name not in ONLY.split(','): continue
    ins = f['ins']; nin = len(ins)
    sc = f['scalar']
    sc_req = ', operand_wf(scalar, modulus.v())' if sc == 'operand' else ''
    sc_req_p = lambda q: (', forall|j: int| 0 <= j < moduli@.len() ==> operand_wf(scalar, (#[trigger] moduli@[j]).v())' if sc == 'operand' else '')
    for inplace in ([False, True] if f['inplace'] else [False]):
        fn = name + ('_inplace' if inplace else '')
        # ---------- component level ----------
        if inplace:
            res = ins[0]; srcs = ['old(%s)' % ins[0]] + ins[1:]
        else:
            res = 'result'; srcs = list(ins)
        q = 'modulus.v()'
        def sp(idx, S=srcs, qq=None): return f['spec'].format(q=(qq or q), **{('c%d' % i): '%s[%s]' % (nm, idx) for i, nm in enumerate(S)})
        def pr(idx, S=srcs, qq=None): return f['pre'].format(q=(qq or q), **{('c%d' % i): ('(#[trigger] %s[%s])' if i == 0 else '%s[%s]') % (nm, idx) for i, nm in enumerate(S)}) if f['pre'] else None
        style = f['style']
        lens = []
        if inplace:
            for o in ins[1:]: lens.append('%s.len() >= old(%s).len()' % (o, res))
        else:
            for o in ins: lens.append(('%s.len() >= old(result).len()' if style == 'index' else '%s.len() == old(result).len()') % o)
        req = ['modulus.wf()'] + lens
        if pr('i'): req.append('forall|i: int| 0 <= i < old(%s).len() ==> %s' % (res, pr('i')))
        w('//@ extract fn src/util/polysmallmod.rs %s mode=absent iter=1' % fn)
        w('//@ sig')
        w('    requires ' + ', '.join(req) + sc_req + ',')
        w('    ensures final(%s).len() == old(%s).len(),' % (res, res))
        w('        forall|i: int| 0 <= i < old(%s).len() ==> (#[trigger] final(%s)[i]) as int == %s,' % (res, res, sp('i')))
        # loop invariants
        if inplace:
            cur = [ins[0]] + ins[1:]
        shadow = name in ('negate', 'add', 'sub')
        inv_common = ['gm.wf()', 'gq == gm.v()', ('modulus == gm.value' if shadow else '*modulus == gm'), '%s.len() == old(%s).len()' % (res, res)] + [l.replace('old(result)', 'result').replace('old(%s)' % res, res) for l in lens]
        if sc == 'operand': inv_common.append('operand_wf(scalar, gq)')
        if pr('x'):
            inv_common.append('forall|x: int| 0 <= x < %s.len() ==> %s' % (res, pr('x', qq='gq')))
        def inv(kvar):
            L = list(inv_common)
            L.append('forall|x: int| 0 <= x < %s ==> (#[trigger] %s[x]) as int == %s' % (kvar, res, sp('x', qq='gq')))
            if inplace: L.append('forall|x: int| %s <= x < %s.len() ==> %s[x] == old(%s)[x]' % (kvar, res, res, res))
            return L
        if style == 'index':
            w('//@ start')
            w('    let ghost gq = modulus.v(); let ghost gm = *modulus;')
            w('//@ loopiter 1 it')
            w('//@ loop 1')
            w('        invariant it.snapshot.end == %s.len(), %s,' % (res, ', '.join(inv('i'))))
            if name == 'dyadic_product':
                w('            modulus_value == gm.value, cr0 == gm.const_ratio[0], cr1 == gm.const_ratio[1], z@.len() == 2, tmp2@.len() == 2,')
                a0 = ('old(comp1)' if inplace else 'comp1')
                w('//@ after 1 util::multiply_u64_u64(')
                w('    proof { lemma_barrett128(z[0] as int, z[1] as int, cr0 as int, cr1 as int, gq); }')
                w('//@ after 1 util::multiply_u64_high_word(')
                w('    let ghost g_carry0 = carry;')
                w('//@ after 2 util::multiply_u64_u64(')
                w('    let ghost g_lo0 = tmp2[0]; let ghost g_hi0 = tmp2[1];')
                w('//@ after 1 tmp3 =')
                w('    let ghost g_t1 = tmp1; let ghost g_ca = tmp3 - g_hi0;')
                w('//@ after 3 util::multiply_u64_u64(')
                w('    let ghost g_lo1 = tmp2[0]; let ghost g_hi1 = tmp2[1];')
                w('//@ after 2 carry =')
                w('    let ghost g_t1b = tmp1; let ghost g_cb = carry - g_hi1;')
                w('//@ after 2 tmp3 =')
                w('    proof {')
                w('        lemma_barrett128_exec(z[0] as int, z[1] as int, cr0 as int, cr1 as int, gq,')
                w('            g_carry0 as int, g_lo0 as int, g_hi0 as int, g_t1 as int, g_ca as int, g_lo1 as int, g_hi1 as int, g_t1b as int, g_cb as int, tmp1 as int, tmp3 as int);')
                w('    }')
            elif name == 'add':
                w('//@ after 1 let c =')
                w('    proof { let x = c as int; if x >= gq { lemma_mod_multiples_vanish(-1, x, gq); lemma_small_mod((x - gq) as nat, gq as nat); assert(x - gq == gq * (-1) + x); } else { lemma_small_mod(x as nat, gq as nat); } }')
            elif name == 'sub':
                a0 = ('old(comp1)' if inplace else 'comp1')
                w('//@ after 1 let borrow =')
                w('    proof { let x = (%s[i as int] as int) - (comp2[i as int] as int); if x < 0 { lemma_mod_multiples_vanish(1, x, gq); lemma_small_mod((x + gq) as nat, gq as nat); assert(x + gq == gq * 1 + x); } else { lemma_small_mod(x as nat, gq as nat); } }' % a0)
        else:
            w('//@ start')
            w('    let ghost gq = modulus.v(); let ghost gm = *modulus;')
            w('//@ iterloop 1')
            w('        invariant verif_it.snapshot.end == %s.len(), %s,' % (res, ', '.join(inv('verif_k'))))
            if name == 'negate':
                pass
        w('//@ end')
        w()
        # ---------- _p level ----------
        fnp = fn + '_p'
        P = PNAMES[nin]
        if inplace:
            resp = P[0]; srcp = ['old(%s)' % P[0]] + P[1:]
        else:
            resp = 'result'; srcp = list(P)
        qj = 'moduli@[i / (degree as int)].v()'
        def spp(idx, S=srcp, qq=qj): return f['spec'].format(q=qq, **{('c%d' % i): '%s[%s]' % (nm, idx) for i, nm in enumerate(S)})
        def prp(idx, S=srcp, qq=qj): return f['pre'].format(q=qq, **{('c%d' % i): ('(#[trigger] %s[%s])' if i == 0 else '%s[%s]') % (nm, idx) for i, nm in enumerate(S)}) if f['pre'] else None
        lensp = []
        others = P[1:] if inplace else P
        for o in others: lensp.append('%s.len() >= degree * moduli.len()' % o)
        reqp = ['mods_wf(moduli@)', 'degree > 0', 'old(%s).len() >= degree * moduli.len()' % resp] + lensp
        if prp('i'): reqp.append('forall|i: int| 0 <= i < degree * moduli.len() ==> %s' % prp('i'))
        w('//@ extract fn src/util/polysmallmod.rs %s mode=absent slicemut=1' % fnp)
        w('//@ sig')
        w('    requires ' + ', '.join(reqp) + sc_req_p(qj) + ',')
        w('    ensures final(%s).len() == old(%s).len(),' % (resp, resp))
        w('        forall|i: int| 0 <= i < degree * moduli.len() ==> (#[trigger] final(%s)[i]) as int == %s,' % (resp, spp('i')))
        w('        forall|i: int| degree * moduli.len() <= i < old(%s).len() ==> (#[trigger] final(%s)[i]) == old(%s)[i],' % (resp, resp, resp))
        invp = ['mods_wf(moduli@)', 'degree > 0', '%s.len() >= degree * moduli.len()' % resp, '%s.len() >= moduli.len() * degree' % resp, '%s.len() == old(%s).len()' % (resp, resp)] + lensp + [l.replace('degree * moduli.len()', 'moduli.len() * degree') for l in lensp]
        if sc == 'operand': invp.append('forall|j: int| 0 <= j < moduli@.len() ==> operand_wf(scalar, (#[trigger] moduli@[j]).v())')
        qjx = 'moduli@[x / (degree as int)].v()'
        if prp('x'): invp.append('forall|x: int| 0 <= x < degree * moduli.len() ==> %s' % prp('x', qq=qjx))
        invp.append('(offset as int) == it.index@ * (degree as int)'); invp.append('i == it.index@')
        invp.append('forall|x: int| 0 <= x < offset ==> (#[trigger] %s[x]) as int == %s' % (resp, spp('x', qq=qjx)))
        invp.append('forall|x: int| offset <= x < %s.len() ==> (#[trigger] %s[x]) == old(%s)[x]' % (resp, resp, resp))
        w('//@ start')
        w('    proof { assert(degree * moduli.len() == moduli.len() * degree) by(nonlinear_arith); }')
        w('//@ loopiter 1 it')
        w('//@ loop 1')
        w('        invariant it.snapshot.end == moduli.len(), ' + ', '.join(invp) + ',')
        call = fn + '('
        anchor_b = call if name in ('modulo', 'negate') else 'let upper ='
        w('//@ before 1 %s' % anchor_b)
        w('    let ghost prev = %s@; let ghost off = offset as int; let ghost dg = degree as int;' % resp)
        w('    proof {')
        w('        assert((i + 1) * dg == i * dg + dg && (i + 1) * dg <= dg * moduli.len()) by(nonlinear_arith) requires 0 <= i < moduli.len(), dg > 0;')
        w('        assert(moduli@[i as int].wf());')
        if f['pre']:
            cur_srcs = ([resp] + P[1:]) if inplace else list(P)
            for ii, nm in enumerate(cur_srcs): w('        let sub%d = %s@.subrange(off, off + dg);' % (ii, nm))
            subs = {('c%d' % ii): ('(#[trigger] sub%d[c])' if ii == 0 else 'sub%d[c]') % ii for ii, nm in enumerate(cur_srcs)}
            w('        assert forall|c: int| 0 <= c < dg implies %s by {' % f['pre'].format(q='moduli@[i as int].v()', **subs))
            w('            lemma_block(off + c, i as int, dg);' + ''.join(' assert(sub%d[c] == %s[off + c]);' % (ii, nm) for ii, nm in enumerate(cur_srcs)))
            w('        }')
        w('    }')
        w('//@ after 1 %s' % call)
        w('    proof {')
        w('        assert forall|wd: int| 0 <= wd < off + dg implies (#[trigger] %s[wd]) as int == %s by {' % (resp, spp('wd', qq='moduli@[wd / (degree as int)].v()')))
        w('            if wd >= off { lemma_block(wd, i as int, dg);' + ''.join(' assert(%s@.subrange(off, off + dg)[wd - off] == %s[wd]);' % (nm, nm) for nm in (P[1:] if inplace else P)) + (' assert(prev.subrange(off, off + dg)[wd - off] == prev[wd]);' if inplace else '') + ' } else { assert(prev[wd] == %s[wd]); }' % resp)
        w('        }')
        w('    }')
        w('//@ end')
        w()
        # ---------- _ps level ----------
        fnps = fn + '_ps'
        PS = PSNAMES[nin]
        if inplace:
            ress = PS[0]; srcs2 = ['old(%s)' % PS[0]] + PS[1:]
        else:
            ress = 'result'; srcs2 = list(PS)
        qk = 'moduli@[(i / (degree as int)) % (moduli@.len() as int)].v()'
        def sps(idx, S=srcs2, qq=qk): return f['spec'].format(q=qq, **{('c%d' % i): '%s[%s]' % (nm, idx) for i, nm in enumerate(S)})
        def prs(idx, S=srcs2, qq=qk): return f['pre'].format(q=qq, **{('c%d' % i): ('(#[trigger] %s[%s])' if i == 0 else '%s[%s]') % (nm, idx) for i, nm in enumerate(S)}) if f['pre'] else None
        otherss = PS[1:] if inplace else PS
        lenss = ['%s.len() >= pcount * (degree * moduli.len())' % o for o in otherss]
        reqs = ['mods_wf(moduli@)', 'degree > 0', 'moduli.len() > 0', 'degree * moduli.len() <= usize::MAX', 'old(%s).len() >= pcount * (degree * moduli.len())' % ress] + lenss
        if prs('i'): reqs.append('forall|i: int| 0 <= i < pcount * (degree * moduli.len()) ==> %s' % prs('i'))
        w('//@ extract fn src/util/polysmallmod.rs %s mode=absent slicemut=1' % fnps)
        w('//@ sig')
        w('    requires ' + ', '.join(reqs) + sc_req_p(qk) + ',')
        w('    ensures final(%s).len() == old(%s).len(),' % (ress, ress))
        w('        forall|i: int| 0 <= i < pcount * (degree * moduli.len()) ==> (#[trigger] final(%s)[i]) as int == %s,' % (ress, sps('i')))
        w('        forall|i: int| pcount * (degree * moduli.len()) <= i < old(%s).len() ==> (#[trigger] final(%s)[i]) == old(%s)[i],' % (ress, ress, ress))
        invs = ['mods_wf(moduli@)', 'degree > 0', 'moduli.len() > 0', 'd == degree * moduli.len()', '%s.len() >= pcount * d' % ress, '%s.len() == old(%s).len()' % (ress, ress)] + [l.replace('(degree * moduli.len())', 'd') for l in lenss]
        if sc == 'operand': invs.append('forall|j: int| 0 <= j < moduli@.len() ==> operand_wf(scalar, (#[trigger] moduli@[j]).v())')
        qkx = 'moduli@[(x / (degree as int)) % (moduli@.len() as int)].v()'
        if prs('x'): invs.append('forall|x: int| 0 <= x < pcount * d ==> %s' % prs('x', qq=qkx))
        invs.append('(offset as int) == it.index@ * (d as int)'); invs.append('i == it.index@')
        invs.append('forall|x: int| 0 <= x < offset ==> (#[trigger] %s[x]) as int == %s' % (ress, sps('x', qq=qkx)))
        invs.append('forall|x: int| offset <= x < %s.len() ==> (#[trigger] %s[x]) == old(%s)[x]' % (ress, ress, ress))
        w('//@ loopiter 1 it')
        w('//@ loop 1')
        w('        invariant it.snapshot.end == pcount, ' + ', '.join(invs) + ',')
        callp = fnp + '('
        anchor_bs = callp if name in ('modulo', 'negate') else 'let upper ='
        w('//@ before 1 %s' % anchor_bs)
        w('    let ghost prev = %s@; let ghost off = offset as int; let ghost dg = degree as int; let ghost gk = moduli.len() as int; let ghost gd = d as int;' % ress)
        w('    proof {')
        w('        assert((i + 1) * gd == i * gd + gd && (i + 1) * gd <= pcount * gd) by(nonlinear_arith) requires 0 <= i < pcount, gd >= 0;')
        w('        assert(gd == dg * gk);')
        if f['pre']:
            cur_srcs = ([ress] + PS[1:]) if inplace else list(PS)
            for ii, nm in enumerate(cur_srcs): w('        let sub%d = %s@.subrange(off, off + gd);' % (ii, nm))
            subs = {('c%d' % ii): ('(#[trigger] sub%d[c])' if ii == 0 else 'sub%d[c]') % ii for ii, nm in enumerate(cur_srcs)}
            w('        assert forall|c: int| 0 <= c < gd implies %s by {' % f['pre'].format(q='moduli@[c / dg].v()', **subs))
            w('            lemma_ps_index(off, c, i as int, dg, gk, gd);' + ''.join(' assert(sub%d[c] == %s[off + c]);' % (ii, nm) for ii, nm in enumerate(cur_srcs)))
            w('        }')
        w('    }')
        w('//@ after 1 %s' % callp)
        w('    proof {')
        w('        assert forall|wd: int| 0 <= wd < off + gd implies (#[trigger] %s[wd]) as int == %s by {' % (ress, sps('wd', qq='moduli@[(wd / (degree as int)) % (moduli@.len() as int)].v()')))
        w('            if wd >= off { let c = wd - off; lemma_ps_index(off, c, i as int, dg, gk, gd);' + ''.join(' assert(%s@.subrange(off, off + gd)[c] == %s[wd]);' % (nm, nm) for nm in (PS[1:] if inplace else PS)) + (' assert(prev.subrange(off, off + gd)[c] == prev[wd]);' if inplace else '') + ' } else { assert(prev[wd] == %s[wd]); }' % ress)
        w('        }')
        w('    }')
        w('//@ end')
        w()

w('} // verus!')
w('fn main() {}')
txt = '\n'.join(out) + '\n'
if ONLY: txt = txt.replace('//@ unit c06_polymod', '//@ unit ' + UNIT)
if ONLY and UNIT.startswith('zz'): txt = txt.replace('//@ property C06 C02 C09', '//@ property NONE')
open(OUT, 'w').write(txt)
print('wrote', OUT, len(out), 'lines')
