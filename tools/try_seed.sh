#!/bin/bash
# tools/try_seed.sh <patch.diff> <Cxx> [more check args]: apply a seeded change to /repo, run the check, restore /repo. (self-test helper)
# The evidence directory is saved and restored, so evidence files never record a run against a modified tree.
set -u
patch="$1"; shift
bk=$(mktemp -d /tmp/evbk.XXXXXX); cp -a /verif/evidence/. "$bk"/
git -C /repo apply "$patch" || { echo "patch does not apply"; rm -rf "$bk"; exit 3; }
/verif/check "$@" | grep -v "^$" | tail -8
rc=${PIPESTATUS[0]}
git -C /repo checkout -- .
mkdir -p /verif/.cache/seed_replays; cp -a /verif/evidence/replay/. /verif/.cache/seed_replays/ 2>/dev/null
rm -rf /verif/evidence; mkdir -p /verif/evidence; cp -a "$bk"/. /verif/evidence/; rm -rf "$bk"
echo "rc=$rc"
