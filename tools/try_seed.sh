#!/bin/bash
# tools/try_seed.sh <patch.diff> <Cxx> [more check args]: apply a seeded change to /repo, run the check, restore /repo. (self-test helper)
set -u
patch="$1"; shift
git -C /repo apply "$patch" || { echo "patch does not apply"; exit 3; }
/verif/check "$@" | grep -v "^$" | tail -8
rc=${PIPESTATUS[0]}
git -C /repo checkout -- .
echo "rc=$rc"
