"""tools/sweep.py [unit...]: authoring helper (not a registered check) - reruns units under other solver seeds and reports proofs that are not stable."""
import sys, glob, os, concurrent.futures
sys.path.insert(0,'/verif/vx'); import run
units=sys.argv[1:] or sorted(os.path.basename(p)[:-6] for p in glob.glob('/verif/specs/*.vspec'))
jobs=[(u,sd) for sd in (11,23,37,59) for u in units]   # seed-major: two jobs of one unit never run at the same time (they share the generated file)
def go(j):
    u,sd=j
    r=run.run_unit(u, None, ('--smt-option','smt.random_seed=%d'%sd))
    return u,sd,r['status'],[f['obligation'] for f in r['failures']]
with concurrent.futures.ThreadPoolExecutor(max_workers=max(1,min(5,len(units)))) as ex:
    for u,sd,st,fl in ex.map(go,jobs):
        if st!='ok': print('UNSTABLE',u,sd,st,fl,flush=True)
print('sweep done',len(jobs))
