#!/usr/bin/env python3
"""tools/keep_seed.py <worktree> <n> <property> <seed-id> <needs> <confirm-line> <check-outcome>
Stores a confirmed seeded change under /verif/seeded/<seed-id>/ (patch.diff, demo.rs, meta.json)."""
import json, os, shutil, sys, re
wt, n, pid, sid, needs, confirm, outcome = sys.argv[1:8]
d = os.path.join('/verif/seeded', sid); os.makedirs(d, exist_ok=True)
shutil.copy(os.path.join(wt, '_seed', 'change%s.diff' % n), os.path.join(d, 'patch.diff'))
shutil.copy(os.path.join(wt, '_seed', 'demo%s.rs' % n), os.path.join(d, 'demo.rs'))
notes = open(os.path.join(wt, '_seed', 'notes.md')).read()
open(os.path.join(d, 'agent_notes.md'), 'w').write(notes)
patch = open(os.path.join(d, 'patch.diff')).read()
files = re.findall(r'^\+\+\+ b/(.*)$', patch, re.M)
json.dump({'property': pid, 'seed_id': sid, 'files_changed': files, 'needs_to_manifest': needs,
           'origin': 'fresh sub-agent given only the property text and a scratch worktree of /repo',
           'confirmed': {'how': 'tools/confirm_seed.sh in the scratch worktree: existing suite (78 tests) passes with the change; demo fails with it, passes without it', 'result': confirm},
           'checked_with': 'git -C /repo apply patch.diff; ./check %s; git -C /repo checkout -- .' % pid,
           'check_outcome': outcome}, open(os.path.join(d, 'meta.json'), 'w'), indent=1)
print('kept', d)
