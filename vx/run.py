"""Run Verus on generated units, map diagnostics to named obligations."""
import hashlib, json, os, re, subprocess, sys, time
sys.path.insert(0, os.path.dirname(os.path.abspath(__file__)))
import gen

ROOT = gen.ROOT
CACHE = os.path.join(ROOT, '.cache')
GEN_DIR = os.path.join(CACHE, 'gen')

SEMANTIC = [
    ('postcondition not satisfied', 'postcondition'),
    ('precondition not satisfied', 'precondition'),
    ('precondition not met: index in bounds', 'bounds'),
    ('precondition not met', 'precondition'),
    ('invariant not satisfied', 'invariant'),
    ('decreases not satisfied', 'decreases'),
    ('possible arithmetic underflow/overflow', 'overflow'),
    ('possible division by zero', 'div-by-zero'),
    ('assertion failed', 'assertion'),
    ('requires not satisfied', 'assertion'),          # `assert(..) by(..) requires P`: P is an obligation like any assertion
    ('assertion not satisfied', 'assertion'),
    ('index out of bounds', 'bounds'),
    ('recommendation not met', 'recommends'),
    ('possible bit shift underflow/overflow', 'shift-overflow'),
    ('slice index', 'bounds'),
    ('unreachable', 'unreachable'),
    ('could not prove termination', 'decreases'),
    ('loop must have a decreases clause', 'decreases-missing'),
]
RESOURCE = ['Resource limit', 'rlimit', 'timed out', 'timeout']


def classify(msg):
    for pat, kind in SEMANTIC:
        if pat in msg:
            return 'semantic', kind
    for pat in RESOURCE:
        if pat in msg:
            return 'resource', 'rlimit'
    return 'other', 'error'


def parse_diags(stderr):
    """split rustc-style diagnostics; returns list of dict(level,msg,locs[(line,col)], text)"""
    diags = []
    cur = None
    for line in stderr.split('\n'):
        m = re.match(r'^(error|warning|note)(\[\w+\])?: (.*)$', line)
        if m:
            if cur: diags.append(cur)
            cur = {'level': m.group(1), 'msg': m.group(3), 'locs': [], 'text': line + '\n'}
            continue
        if cur is None: continue
        cur['text'] += line + '\n'
        m = re.match(r'^\s*(-->|:::) (.*?):(\d+):(\d+)', line)
        if m:
            cur['locs'].append((int(m.group(3)), int(m.group(4))))
            continue
        m = re.match(r'^\s*(\d+) [|/ ]', line)
        if m and cur['locs']:
            cur['gutter'] = cur.get('gutter', []) + [int(m.group(1))]
    if cur: diags.append(cur)
    return diags


def run_unit(name, rlimit=None, extra_args=(), seed=None, keep=True):
    """returns result dict"""
    t0 = time.time()
    res = {'unit': name, 'status': None, 'failures': [], 'functions': [], 'verified': 0, 'errors': 0}
    try:
        u = gen.generate(name)
        text = gen.assemble(u)
    except gen.GenErr as e:
        res['status'] = 'gen-error'; res['reason'] = str(e); res['wall_s'] = time.time() - t0
        return res
    os.makedirs(GEN_DIR, exist_ok=True)
    path = os.path.join(GEN_DIR, name + '.rs')
    with open(path, 'w') as f:
        f.write(text)
    res['gen_path'] = path
    res['gen_sha256'] = hashlib.sha256(text.encode()).hexdigest()
    res['properties'] = u.properties
    res['rewrites'] = u.rewrites
    res['extracted'] = [{k: fn[k] for k in ('name', 'kind', 'path', 'line', 'sha256', 'mode', 'stub', 'impl', 'clauses')} for fn in u.functions]
    res['trusted_scan'] = [{'pattern': p, 'line': n, 'text': d} for p, n, d in gen.scan_trusted(text)]
    res['min_verified'] = u.min_verified
    cmd = ['verus', path, '--output-json', '--time-expanded', '--crate-name', name]
    if u.rlimit: rlimit = max(int(rlimit or 0), u.rlimit * (4 if rlimit else 1))
    if rlimit: cmd += ['--rlimit', str(rlimit)]
    if seed is not None: cmd += ['-V', 'smt-seed=%d' % seed] if False else []
    cmd += list(extra_args)
    res['cmd'] = ' '.join(cmd)
    env = dict(os.environ)
    try:
        p = subprocess.run(cmd, capture_output=True, text=True, env=env, cwd=GEN_DIR, timeout=int(os.environ.get('VERIF_VERUS_TIMEOUT', '900')))
    except subprocess.TimeoutExpired:
        res['status'] = 'timeout'; res['reason'] = 'verus wall timeout'; res['wall_s'] = time.time() - t0
        return res
    res['rc'] = p.returncode
    res['stderr'] = p.stderr
    try:
        j = json.loads(p.stdout)
    except Exception:
        res['status'] = 'tool-error'; res['reason'] = 'no JSON from verus: ' + p.stderr[-2000:]; res['wall_s'] = time.time() - t0
        return res
    vr = j.get('verification-results', {})
    res['verified'] = vr.get('verified', 0); res['errors'] = vr.get('errors', 0)
    tm = j.get('times-ms', {})
    res['smt_ms'] = tm.get('smt', {}).get('smt-run', 0)
    res['total_ms'] = tm.get('total', 0)
    fb = []
    for mod in tm.get('smt', {}).get('smt-run-module-times', []):
        for f in mod.get('function-breakdown', []):
            fb.append({'function': f['function'], 'mode': f.get('mode:', f.get('mode')), 'success': f['success'],
                       'time_us': f.get('time-micros', 0), 'rlimit': f.get('rlimit', 0)})
    res['functions'] = fb
    diags = [d for d in parse_diags(p.stderr) if d['level'] == 'error' and not d['msg'].startswith('aborting due to')]
    canary_failed = False
    for d in diags:
        cls, kind = classify(d['msg'] + ' ' + d['text'])
        origins = [gen.origin_of(u, l, c) for (l, c) in d['locs']]
        origins += [gen.origin_of(u, l, 1) for l in d.get('gutter', []) if (l, 1) not in d['locs']][:8]
        owner = None
        for o, fn in origins:
            if fn is not None and not fn['stub']:
                owner = fn; break
        primary = origins[0][0] if origins else '?'
        if 'fn verif_canary' in d['text']:
            canary_failed = True; continue
        oname = (owner['name'] + ('<%s>' % owner['impl'] if owner.get('impl') else '')) if owner else 'spec'
        name_ = '%s/%s/%s@%s' % (name, oname, kind, primary)
        res['failures'].append({'obligation': name_, 'class': cls, 'kind': kind, 'function': owner['name'] if owner else None,
                                'fn_path': owner['path'] if owner else None, 'msg': d['msg'], 'text': d['text'][:3000],
                                'origins': [o for o, _ in origins][:len(d['locs'])]})
    res['canary_failed'] = canary_failed
    res['has_canary'] = u.has_canary
    if u.has_canary:
        # the canary is counted by verus as one error; remove it from the totals
        res['errors'] = max(0, res['errors'] - (1 if canary_failed else 0))
        res['functions'] = [f for f in res['functions'] if not f['function'].endswith('::verif_canary')]
    if 'panicked at' in p.stderr or 'internal compiler error' in p.stderr:
        res['status'] = 'tool-error'; res['reason'] = 'verus crashed: ' + p.stderr[:1500]
    elif u.has_canary and not canary_failed and not vr.get('encountered-vir-error') and not any(f['class'] == 'other' for f in res['failures']):
        res['status'] = 'vacuous'; res['reason'] = 'canary `ensures false` was PROVED: environment inconsistent'
    elif vr.get('encountered-vir-error') or (p.returncode != 0 and not diags):
        res['status'] = 'tool-error'; res['reason'] = p.stderr[-3000:]
    elif any(f['class'] == 'other' for f in res['failures']):
        res['status'] = 'tool-error'; res['reason'] = '\n'.join(f['text'] for f in res['failures'] if f['class'] == 'other')[:4000]
    elif res['failures']:
        res['status'] = 'fail'
    else:
        res['status'] = 'ok'
    res['wall_s'] = time.time() - t0
    return res


if __name__ == '__main__':
    r = run_unit(sys.argv[1], rlimit=next((x for x in sys.argv[2:] if x.replace('.', '').isdigit()), None))
    print('unit=%s status=%s verified=%s errors=%s smt_ms=%s wall=%.1fs' % (r['unit'], r['status'], r.get('verified'), r.get('errors'), r.get('smt_ms'), r.get('wall_s', 0)))
    for f in r.get('failures', []):
        print('--', f['obligation'], '|', f['msg'][:200], '|', f['origins'])
        if '-v' in sys.argv or f['class'] == 'other': print(f['text'][:1500])
    if r['status'] in ('gen-error', 'tool-error', 'timeout', 'vacuous') and not r.get('failures'):
        print(r.get('reason', '')[:3000])
    slow = sorted(r.get('functions', []), key=lambda f: -f['time_us'])[:5]
    print('slowest:', [(f['function'].split('::')[-1], f['time_us'] // 1000) for f in slow])
    bad = [f['function'] for f in r.get('functions', []) if not f['success']]
    if bad: print('failed functions:', bad)
