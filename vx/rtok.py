"""Minimal Rust tokenizer + item locator used by the extractor.

Tokens are (kind, text, start, end) with kind in
  'ws', 'comment', 'doc', 'str', 'char', 'life', 'id', 'num', 'punct'.
Only what the extractor needs: comments/strings never confuse brace matching.
"""
import re

ID_START = re.compile(r'[A-Za-z_]')
ID_REST = re.compile(r'[A-Za-z0-9_]*')
NUM = re.compile(r'[0-9][0-9A-Za-z_]*(\.[0-9][0-9A-Za-z_]*)?')
MULTI = ['..=', '...', '<<=', '>>=', '->', '=>', '::', '..', '&&', '||', '==', '!=', '<=', '>=',
         '+=', '-=', '*=', '/=', '%=', '^=', '&=', '|=', '<<', '>>']


class TokErr(Exception):
    pass


def tokenize(s):
    toks = []
    i = 0
    n = len(s)
    while i < n:
        c = s[i]
        if c in ' \t\r\n':
            j = i
            while j < n and s[j] in ' \t\r\n':
                j += 1
            toks.append(('ws', s[i:j], i, j)); i = j; continue
        if s.startswith('//', i):
            j = s.find('\n', i)
            if j < 0: j = n
            kind = 'doc' if (s.startswith('///', i) and not s.startswith('////', i)) or s.startswith('//!', i) else 'comment'
            toks.append((kind, s[i:j], i, j)); i = j; continue
        if s.startswith('/*', i):
            depth = 1; j = i + 2
            while j < n and depth > 0:
                if s.startswith('/*', j): depth += 1; j += 2
                elif s.startswith('*/', j): depth -= 1; j += 2
                else: j += 1
            if depth: raise TokErr('unterminated block comment at %d' % i)
            kind = 'doc' if (s.startswith('/**', i) and not s.startswith('/***', i) and not s.startswith('/**/', i)) or s.startswith('/*!', i) else 'comment'
            toks.append((kind, s[i:j], i, j)); i = j; continue
        # raw strings / byte strings
        m = re.match(r'b?r(#*)"', s[i:i + 40])
        if m:
            hashes = m.group(1)
            endpat = '"' + hashes
            j = s.find(endpat, i + len(m.group(0)))
            if j < 0: raise TokErr('unterminated raw string at %d' % i)
            j += len(endpat)
            toks.append(('str', s[i:j], i, j)); i = j; continue
        if c == '"' or (c == 'b' and i + 1 < n and s[i + 1] == '"'):
            j = i + (2 if c == 'b' else 1)
            while j < n and s[j] != '"':
                if s[j] == '\\': j += 2
                else: j += 1
            if j >= n: raise TokErr('unterminated string at %d' % i)
            j += 1
            toks.append(('str', s[i:j], i, j)); i = j; continue
        if c == "'" or (c == 'b' and i + 1 < n and s[i + 1] == "'"):
            k = i + (1 if c == 'b' else 0)
            # char literal or lifetime
            m = re.match(r"'(\\(x[0-9a-fA-F]{2}|u\{[0-9a-fA-F_]+\}|.)|[^\\'])'", s[k:k + 16], re.S)
            if m:
                j = k + len(m.group(0))
                toks.append(('char', s[i:j], i, j)); i = j; continue
            m = re.match(r"'[A-Za-z_][A-Za-z0-9_]*", s[k:k + 64])
            if m and c == "'":
                j = k + len(m.group(0))
                toks.append(('life', s[i:j], i, j)); i = j; continue
            raise TokErr('bad quote at %d' % i)
        if ID_START.match(c):
            j = i + 1 + len(ID_REST.match(s, i + 1).group(0))
            toks.append(('id', s[i:j], i, j)); i = j; continue
        if c.isdigit():
            m = NUM.match(s, i)
            j = m.end()
            # don't swallow range like 0..n : NUM only takes '.' followed by digit
            toks.append(('num', s[i:j], i, j)); i = j; continue
        for mp in MULTI:
            if s.startswith(mp, i):
                toks.append(('punct', mp, i, i + len(mp))); i += len(mp); break
        else:
            toks.append(('punct', c, i, i + 1)); i += 1
    return toks


def code_tokens(toks):
    """indices of tokens that are code (not ws/comment/doc)."""
    return [k for k, t in enumerate(toks) if t[0] not in ('ws', 'comment', 'doc')]


OPEN = {'(': ')', '[': ']', '{': '}'}
CLOSE = {')': '(', ']': '[', '}': '{'}


def match_close(toks, ci, k):
    """ci: list of code-token indices; k: position in ci of an opening bracket. returns position in ci of the match."""
    depth = 0
    o = toks[ci[k]][1]
    assert o in OPEN, o
    for p in range(k, len(ci)):
        t = toks[ci[p]]
        if t[0] != 'punct': continue
        if t[1] in OPEN: depth += 1
        elif t[1] in CLOSE:
            depth -= 1
            if depth == 0:
                return p
    raise TokErr('unmatched bracket')


def norm(s):
    return re.sub(r'\s+', '', s)


class Item:
    def __init__(self, kind, name, impl, start, end, src, path, fn_pos=None):
        self.kind = kind; self.name = name; self.impl = impl
        self.start = start; self.end = end  # char offsets in src
        self.src = src; self.path = path
        self.text = src[start:end]
        self.line = src.count('\n', 0, start) + 1


def locate_items(src, path):
    """Return list of Items: free fns (depth 0), fns in impl/trait blocks (depth 1), structs/enums/consts at depth 0.
    Items inside `mod x { }` blocks are recorded with impl='mod:x' (so tests modules never collide)."""
    toks = tokenize(src)
    ci = code_tokens(toks)
    items = []

    def scan(lo, hi, ctx):
        p = lo
        while p < hi:
            t = toks[ci[p]]
            if t[0] == 'punct' and t[1] == '#':
                # attribute: # [ ... ] or # ! [ ... ]
                q = p + 1
                if q < hi and toks[ci[q]][1] == '!': q += 1
                if q < hi and toks[ci[q]][1] == '[':
                    p = match_close(toks, ci, q) + 1
                    continue
            if t[0] == 'id' and t[1] in ('impl', 'trait', 'mod') :
                # find opening brace or ';'
                q = p + 1
                while q < hi and toks[ci[q]][1] not in ('{', ';'):
                    q += 1
                if q >= hi: break
                if toks[ci[q]][1] == ';':
                    p = q + 1; continue
                header = src[toks[ci[p + 1]][2]:toks[ci[q]][2]]
                e = match_close(toks, ci, q)
                if t[1] == 'mod':
                    scan(q + 1, e, 'mod:' + norm(header))
                else:
                    items.append(Item(t[1], norm(header), ctx, item_start(p), toks[ci[e]][3], src, path))
                    scan(q + 1, e, (t[1] + ':' if t[1] == 'trait' else '') + norm(header))
                p = e + 1; continue
            if t[0] == 'id' and t[1] == 'fn' and p + 1 < hi and toks[ci[p + 1]][0] == 'id':
                name = toks[ci[p + 1]][1]
                q = p + 2
                # find body '{' or ';' at bracket depth 0 (skip generics / params)
                depth = 0
                while q < hi:
                    x = toks[ci[q]][1]
                    if toks[ci[q]][0] == 'punct':
                        if x in ('(', '['): depth += 1
                        elif x in (')', ']'): depth -= 1
                        elif depth == 0 and x in ('{', ';'): break
                    q += 1
                if q >= hi: break
                if toks[ci[q]][1] == ';':
                    items.append(Item('fndecl', name, ctx, item_start(p), toks[ci[q]][3], src, path))
                    p = q + 1; continue
                e = match_close(toks, ci, q)
                items.append(Item('fn', name, ctx, item_start(p), toks[ci[e]][3], src, path))
                p = e + 1; continue
            if t[0] == 'id' and t[1] in ('struct', 'enum', 'union') and p + 1 < hi and toks[ci[p + 1]][0] == 'id':
                name = toks[ci[p + 1]][1]
                q = p + 2
                depth = 0
                while q < hi:
                    x = toks[ci[q]][1]
                    if toks[ci[q]][0] == 'punct':
                        if x in ('(', '['): depth += 1
                        elif x in (')', ']'): depth -= 1
                        elif depth == 0 and x in ('{', ';'): break
                    q += 1
                if toks[ci[q]][1] == ';':
                    e = q
                else:
                    e = match_close(toks, ci, q)
                items.append(Item(t[1], name, ctx, item_start(p), toks[ci[e]][3], src, path))
                p = e + 1; continue
            if t[0] == 'id' and t[1] in ('const', 'static') and p + 2 < hi and toks[ci[p + 1]][0] == 'id' and toks[ci[p + 2]][1] == ':':
                name = toks[ci[p + 1]][1]
                q = p + 2
                depth = 0
                while q < hi:
                    x = toks[ci[q]][1]
                    if toks[ci[q]][0] == 'punct':
                        if x in OPEN: depth += 1
                        elif x in CLOSE: depth -= 1
                        elif depth == 0 and x == ';': break
                    q += 1
                items.append(Item('const', name, ctx, item_start(p), toks[ci[q]][3], src, path))
                p = q + 1; continue
            if t[0] == 'punct' and t[1] == '{':
                # some other braced thing (macro_rules body, use groups...) -- skip it entirely
                p = match_close(toks, ci, p) + 1; continue
            p += 1

    def item_start(p):
        """walk back over visibility / qualifiers to the item's first token; return char offset."""
        q = p
        while q > 0:
            prev = toks[ci[q - 1]]
            if prev[0] == 'id' and prev[1] in ('pub', 'const', 'unsafe', 'async', 'extern', 'default'):
                q -= 1; continue
            if prev[1] == ')' and q >= 2:
                # pub(crate)
                r = q - 1
                depth = 0
                while r >= 0:
                    x = toks[ci[r]][1]
                    if x == ')': depth += 1
                    elif x == '(':
                        depth -= 1
                        if depth == 0: break
                    r -= 1
                if r > 0 and toks[ci[r - 1]][1] == 'pub':
                    q = r - 1; continue
            break
        return toks[ci[q]][2]

    scan(0, len(ci), '')
    return items
