"""Unit generator: reads specs/<unit>.vspec (a Verus template with //@ directives), extracts the named
items verbatim from /repo's working tree, applies the recorded rewrite rules, splices ghost text and
writes one self-contained Verus file plus its line map and extraction record.

See DESIGN.md section 3.1 for the rule table. Every change to extracted text is bracketed by sentinels:
    /*@G <label>*/ ghost text /*@/G*/                  (pure insertion)
    /*@R<rule> <base64 original>*/ replacement /*@/R*/   (rewrite)
so that erase() can reconstruct the original token stream, which is compared with /repo's on every run.
"""
import base64, bisect, hashlib, json, os, re, shlex, sys
from rtok import tokenize, code_tokens, match_close, locate_items, norm, TokErr, OPEN, CLOSE

REPO = os.environ.get('VERIF_REPO', '/repo')
HERE = os.path.dirname(os.path.abspath(__file__))
ROOT = os.path.dirname(HERE)
SPECS = os.path.join(ROOT, 'specs')


class GenErr(Exception):
    """extraction / splice failure -> undecided (exit 2), never a violation"""
    pass


_item_cache = {}


def repo_items(path):
    full = os.path.join(REPO, path)
    if full not in _item_cache:
        try:
            src = open(full).read()
        except OSError as e:
            raise GenErr('cannot read %s: %s' % (full, e))
        try:
            _item_cache[full] = (src, locate_items(src, path))
        except TokErr as e:
            raise GenErr('cannot tokenize %s: %s' % (path, e))
    return _item_cache[full]


def find_item(path, kind, name, impl=None):
    src, items = repo_items(path)
    kinds = {'fn': ('fn',), 'struct': ('struct', 'enum', 'union'), 'enum': ('struct', 'enum', 'union'),
             'const': ('const',), 'impl': ('impl',), 'trait': ('trait',)}[kind]
    cands = [it for it in items if it.kind in kinds and it.name == (norm(name) if kind in ('impl', 'trait') else name)]
    if impl is not None:
        cands = [it for it in cands if it.impl == norm(impl)]
    else:
        cands = [it for it in cands if not it.impl.startswith('mod:')]
        if len(cands) > 1:
            top = [it for it in cands if it.impl == '']
            if len(top) == 1: cands = top
    if len(cands) != 1:
        raise GenErr('item %s %s::%s impl=%s: %d candidates' % (kind, path, name, impl, len(cands)))
    return cands[0]


def b64(s):
    return base64.urlsafe_b64encode(s.encode()).decode()   # urlsafe: a plain "/" before the closing "*/" would open a nested comment


def G(label, text):
    return '/*@G %s*/%s/*@/G*/' % (label.replace('*/', '* /'), text)


def R(rule, orig, new):
    return '/*@R%s %s*/%s/*@/R*/' % (rule, b64(orig), new)


ERASE_G = re.compile(r'/\*@G .*?\*/.*?/\*@/G\*/', re.S)
ERASE_R = re.compile(r'/\*@R(\w+) ([A-Za-z0-9+/=_-]*)\*/.*?/\*@/R\*/', re.S)


def erase(text):
    text = ERASE_G.sub(' ', text)
    text = ERASE_R.sub(lambda m: ' ' + base64.urlsafe_b64decode(m.group(2)).decode() + ' ', text)
    return text


def code_texts(s):
    try:
        toks = tokenize(s)
    except TokErr as e:
        raise GenErr('cannot tokenize %r: %s' % (s[:60], e))
    return [toks[k][1] for k in code_tokens(toks)]


MACRO_PANIC = ('panic', 'unreachable', 'unimplemented', 'todo')
MACRO_ASSERT = ('assert', 'assert_eq', 'assert_ne')
MACRO_DEBUG = ('debug_assert', 'debug_assert_eq', 'debug_assert_ne')
MACRO_PRINT = ('println', 'eprintln', 'print', 'eprint', 'dbg')


def split_top_commas(toks, ci, lo, hi):
    """split code-token positions [lo,hi) at top-level commas; returns list of (lo,hi)"""
    parts = []; depth = 0; start = lo
    for p in range(lo, hi):
        x = toks[ci[p]]
        if x[0] == 'punct':
            if x[1] in OPEN: depth += 1
            elif x[1] in CLOSE: depth -= 1
            elif x[1] == ',' and depth == 0:
                parts.append((start, p)); start = p + 1
    if start < hi: parts.append((start, hi))
    return parts


class Extracted:
    pass


def extract_fn(item, opts, blocks, rewrites_log, as_stub=False):
    """Return generated text for a fn item. blocks: dict of ghost texts.
    opts: mode, rename."""
    text = item.text
    toks = tokenize(text)
    ci = code_tokens(toks)
    edits = []  # (start, end, replacement)  char offsets in text; replacement already sentinel-wrapped
    mode = opts.get('mode', 'absent')

    def tk(p): return toks[ci[p]]

    # ---- header: strip qualifiers before `fn` (R1) ----
    p = 0
    while tk(p)[1] != 'fn':
        p += 1
    fnp = p
    if fnp > 0:
        s0 = tk(0)[2]; e0 = tk(fnp)[2]
        orig = text[s0:e0]
        keepq = ' '.join(w for w in ['unsafe'] if re.search(r'\bunsafe\b', orig))
        if keepq:
            raise GenErr('%s: unsafe fn not supported' % item.name)
        edits.append((s0, e0, R('1', orig, '')))
        rewrites_log.append({'rule': 'R1', 'fn': item.name, 'before': orig.strip(), 'after': ''})
    # name
    namep = fnp + 1
    if opts.get('rename'):
        edits.append((tk(namep)[2], tk(namep)[3], R('N', tk(namep)[1], opts['rename'])))
        rewrites_log.append({'rule': 'RN', 'fn': item.name, 'before': item.name, 'after': opts['rename']})
    # generics
    p = namep + 1
    if tk(p)[1] == '<':
        depth = 0
        while True:
            x = tk(p)[1]
            if x == '<': depth += 1
            elif x == '>': depth -= 1
            elif x == '>>': depth -= 2
            p += 1
            if depth <= 0: break
    if tk(p)[1] != '(':
        raise GenErr('%s: cannot parse signature' % item.name)
    pe = match_close(toks, ci, p)
    p = pe + 1
    # find body brace
    q = p; depth = 0
    while True:
        x = tk(q)
        if x[0] == 'punct':
            if x[1] in ('(', '['): depth += 1
            elif x[1] in (')', ']'): depth -= 1
            elif x[1] == '{' and depth == 0: break
        q += 1
    bodyp = q
    bodye = match_close(toks, ci, bodyp)
    # return type (R2)
    retname = opts.get('ret', 'r')
    if tk(p)[1] == '->':
        rs = tk(p + 1)[2]
        # ends at `where` or body
        w = p + 1
        while w < bodyp and not (tk(w)[0] == 'id' and tk(w)[1] == 'where'):
            w += 1
        re_ = tk(w - 1)[3]
        rettype = text[rs:re_]
        if rettype.strip() != '!':
            edits.append((rs, rs, R('2', '', '(%s: ' % retname)))
            edits.append((re_, re_, R('2', '', ')')))
            rewrites_log.append({'rule': 'R2', 'fn': item.name, 'before': '-> ' + rettype.strip(), 'after': '-> (%s: %s)' % (retname, rettype.strip())})
    # signature ghost text: goes right before body brace
    sig = blocks.get('sig', '')
    bs = tk(bodyp)[2]
    if as_stub:
        # body replaced entirely; caller handles
        pass
    if sig.strip():
        edits.append((bs, bs, G('sig', '\n' + sig.rstrip() + '\n')))

    if as_stub:
        be = tk(bodye)[3]
        edits.append((bs, be, R('S', text[bs:be], '{ unimplemented!() }')))
        out = apply_edits(text, edits)
        return out

    # ---- R10: `mut self` receiver (unsupported by Verus): alpha-rename. `fn f(mut self, ..) { B }` becomes
    #      `fn f(self, ..) { let mut verif_self = self; B[self := verif_self] }`
    q = None
    for qq in range(namep + 1, pe):
        if tk(qq)[0] == 'id' and tk(qq)[1] == 'mut' and tk(qq + 1)[0] == 'id' and tk(qq + 1)[1] == 'self' and tk(qq - 1)[1] in ('(',):
            q = qq; break
    if q is not None and not as_stub:
        edits.append((tk(q)[2], tk(q + 1)[2], R('10', text[tk(q)[2]:tk(q + 1)[2]], '')))
        pos = tk(bodyp)[3]
        edits.append((pos, pos, R('10', '', ' let mut verif_self = self; ')))
        for qq in range(bodyp + 1, bodye):
            if tk(qq)[0] == 'id' and tk(qq)[1] == 'self':
                edits.append((tk(qq)[2], tk(qq)[3], R('10', 'self', 'verif_self')))
        rewrites_log.append({'rule': 'R10', 'fn': item.name, 'before': 'mut self', 'after': 'let mut verif_self = self; (alpha-renamed)'})
    elif q is not None:
        edits.append((tk(q)[2], tk(q + 1)[2], R('10', text[tk(q)[2]:tk(q + 1)[2]], '')))

    # ---- R8b: a trait default method extracted as a free generic function:
    #      selfparam="this:&V" generics="<V: ValCheck>"  turns  fn f(&self, ..)  into  fn f<V: ValCheck>(this: &V, ..)  and self := this
    if opts.get('selfparam') and not as_stub:
        nm, ty = opts['selfparam'].split(':', 1)
        q0 = None
        for qq in range(namep + 1, pe):
            if tk(qq)[0] == 'id' and tk(qq)[1] == 'self':
                q0 = qq; break
        if q0 is None: raise GenErr('%s: selfparam given but no self receiver' % item.name)
        st = q0
        while tk(st - 1)[1] in ('&', 'mut') or tk(st - 1)[0] == 'life': st -= 1
        edits.append((tk(st)[2], tk(q0)[3], R('8', text[tk(st)[2]:tk(q0)[3]], '%s: %s' % (nm, ty))))
        if opts.get('generics'):
            pos = tk(namep)[3]
            edits.append((pos, pos, R('8', '', opts['generics'])))
        for qq in range(bodyp + 1, bodye):
            if tk(qq)[0] == 'id' and tk(qq)[1] == 'self':
                edits.append((tk(qq)[2], tk(qq)[3], R('8', 'self', nm)))
        rewrites_log.append({'rule': 'R8', 'fn': item.name, 'before': 'self receiver of a trait default method', 'after': opts['selfparam'] + ' ' + opts.get('generics', '')})

    # ---- R8c: associated types of the impl's trait: `Self::Value` etc. replaced by the right-hand sides of the impl's own
    #      `type Value = ...;` lines (given as assoc="Value=u64,Root=T")
    assoc_done = set()
    if opts.get('assoc'):
        amap = dict(kv.split('=', 1) for kv in opts['assoc'].split(','))
        for q in range(fnp, bodye - 2):
            if tk(q)[0] == 'id' and tk(q)[1] == 'Self' and tk(q + 1)[1] == '::' and tk(q + 2)[0] == 'id' and tk(q + 2)[1] in amap:
                edits.append((tk(q)[2], tk(q + 2)[3], R('8', text[tk(q)[2]:tk(q + 2)[3]], amap[tk(q + 2)[1]])))
                assoc_done.add(q)
        rewrites_log.append({'rule': 'R8', 'fn': item.name, 'before': 'Self::<assoc type>', 'after': opts['assoc']})

    # ---- R8: a trait-impl method extracted as a free/inherent function: `Self` becomes the impl's own type
    if opts.get('selfty'):
        for q in range(fnp, bodye):
            if tk(q)[0] == 'id' and tk(q)[1] == 'Self' and q not in assoc_done:
                edits.append((tk(q)[2], tk(q)[3], R('8', 'Self', opts['selfty'])))
        rewrites_log.append({'rule': 'R8', 'fn': item.name, 'before': 'Self', 'after': opts['selfty']})

    # ---- R4: slice iterator idioms -> index loops (opt iter=1). Exactly these shapes:
    #   R.iter_mut().zip(C.iter()).for_each(|(r, c)| *r = E);     (c or &c)
    #   C.iter().zip(R.iter_mut()).for_each(|(c, r)| *r = E);     (c or &c)
    #   X.iter_mut().for_each(|c| *c = E);
    # become `for verif_k in 0..verif_min(R.len(), C.len()) { let c = C[verif_k] | &C[verif_k]; R[verif_k] = E; }`
    # (the zip of two slice iterators stops at the shorter one). Ghost text for the generated loop: //@ iterloop k / iterend k.
    r4_spans = []
    if opts.get('iter') == '1' and not as_stub:
        q = bodyp + 1; nloop = 0
        def seq(q, words):
            return all(q + i < bodye and tk(q + i)[1] == w for i, w in enumerate(words))
        while q < bodye:
            if tk(q)[0] == 'id' and (seq(q + 1, ['.', 'iter_mut', '(', ')']) or seq(q + 1, ['.', 'iter', '(', ')'])) and (q == bodyp + 1 or tk(q - 1)[1] in (';', '{', '}')):
                x1 = tk(q)[1]; m1 = tk(q + 2)[1]; r = q + 5
                x2 = None; m2 = None
                if seq(r, ['.', 'zip', '(']) and tk(r + 3)[0] == 'id' and (seq(r + 4, ['.', 'iter', '(', ')', ')']) or seq(r + 4, ['.', 'iter_mut', '(', ')', ')'])):
                    x2 = tk(r + 3)[1]; m2 = tk(r + 5)[1]; r = r + 9
                if seq(r, ['.', 'for_each', '(', '|']):
                    po = r + 3
                    pc = po + 1
                    while tk(pc)[1] != '|': pc += 1
                    pat = [tk(i)[1] for i in range(po + 1, pc)]
                    fe_close = match_close(toks, ci, r + 2)
                    body_txt = text[tk(pc + 1)[2]:tk(fe_close - 1)[3]]
                    if tk(fe_close + 1)[1] != ';':
                        raise GenErr('%s: R4: for_each not used as a statement' % item.name)
                    # parse pattern
                    names = [w for w in pat if re.match(r'[A-Za-z_]\w*$', w)]
                    def is_ref(nm):
                        i = pat.index(nm); return i > 0 and pat[i - 1] == '&'
                    if x2 is None and m1 == 'iter_mut' and len(names) == 1 and body_txt.lstrip().startswith('{'):
                        # X.iter_mut().for_each(|x| { BODY })  ->  for k in 0..X.len() { let x = &mut X[k]; BODY }
                        c = names[0]; tgt = x1
                        nloop += 1
                        inner = body_txt.strip()[1:-1]
                        new = ('for verif_k in verif_it: 0..%s.len() %s{ let %s = &mut %s[verif_k]; %s %s}'
                               % (tgt, G('iterloop %d' % nloop, '\n' + blocks.get('iterloop %d' % nloop, '').rstrip() + '\n'), c, tgt, inner,
                                  G('iterend %d' % nloop, '\n' + blocks.get('iterend %d' % nloop, '').rstrip() + '\n')))
                    elif x2 is None:
                        if m1 != 'iter_mut' or len(names) != 1: raise GenErr('%s: R4: unsupported single-iterator shape' % item.name)
                        c = names[0]; tgt = x1
                        mm = re.match(r'\s*\*\s*%s\s*=(?!=)(.*)$' % re.escape(c), body_txt, re.S)
                        if not mm: raise GenErr('%s: R4: closure body is not `*%s = E`' % (item.name, c))
                        expr = mm.group(1).strip()
                        nloop += 1
                        new = ('for verif_k in verif_it: 0..%s.len() %s{ let verif_old = %s[verif_k]; let %s = &verif_old; %s[verif_k] = %s; %s}'
                               % (tgt, G('iterloop %d' % nloop, '\n' + blocks.get('iterloop %d' % nloop, '').rstrip() + '\n'), tgt, c, tgt, expr,
                                  G('iterend %d' % nloop, '\n' + blocks.get('iterend %d' % nloop, '').rstrip() + '\n')))
                    else:
                        if len(names) != 2 or {m1, m2} != {'iter', 'iter_mut'}: raise GenErr('%s: R4: unsupported zip shape' % item.name)
                        (rn, cn) = (names[0], names[1]) if m1 == 'iter_mut' else (names[1], names[0])
                        (rx, cx) = (x1, x2) if m1 == 'iter_mut' else (x2, x1)
                        mm = re.match(r'\s*\*\s*%s\s*=(?!=)(.*)$' % re.escape(rn), body_txt, re.S)
                        if not mm: raise GenErr('%s: R4: closure body is not `*%s = E`' % (item.name, rn))
                        expr = mm.group(1).strip()
                        bind = 'let %s = %s[verif_k];' % (cn, cx) if is_ref(cn) else 'let %s = &%s[verif_k];' % (cn, cx)
                        nloop += 1
                        new = ('for verif_k in verif_it: 0..verif_min(%s.len(), %s.len()) %s{ %s %s[verif_k] = %s; %s}'
                               % (rx, cx, G('iterloop %d' % nloop, '\n' + blocks.get('iterloop %d' % nloop, '').rstrip() + '\n'), bind, rx, expr,
                                  G('iterend %d' % nloop, '\n' + blocks.get('iterend %d' % nloop, '').rstrip() + '\n')))
                    s0 = tk(q)[2]; e0 = tk(fe_close + 1)[3]
                    edits.append((s0, e0, R('4', text[s0:e0], new)))
                    r4_spans.append((s0, e0))
                    rewrites_log.append({'rule': 'R4', 'fn': item.name, 'before': re.sub(r'\s+', ' ', text[s0:e0])[:200], 'after': re.sub(r'/\*@G.*?\*/.*?/\*@/G\*/', '', new, flags=re.S)[:200]})
                    q = fe_close + 2; continue
            q += 1

    # ---- R4b (opt iter=1): `for (I, P) in X.iter().enumerate() { B }`  ->  `for I in verif_it: 0..X.len() { let P = &X[I]; B }`
    #      and the iter_mut() form with `let P = &mut X[I];`. X is any place expression (e.g. self.c0). Ghost text: //@ iterloop k / iterend k
    #      (numbering continues after the for_each loops of R4).
    if opts.get('iter') == '1' and not as_stub:
        q = bodyp + 1
        nloop_b = sum(1 for r in rewrites_log if r.get('rule') == 'R4' and r.get('fn') == item.name)
        while q < bodye - 8:
            if tk(q)[1] == 'for' and tk(q + 1)[1] == '(' and tk(q + 2)[0] == 'id' and tk(q + 3)[1] == ',' and tk(q + 4)[0] == 'id' and tk(q + 5)[1] == ')' and tk(q + 6)[1] == 'in':
                e = q + 7
                while e < bodye and tk(e)[1] != '{': e += 1
                # tokens q+7 .. e-1 must end with . iter|iter_mut ( ) . enumerate ( )
                tail = [tk(i)[1] for i in range(e - 8, e)]
                tail9 = [tk(i)[1] for i in range(e - 9, e)]
                if len(tail9) == 9 and tail9[0] == '.' and tail9[1] == 'chunks_mut' and tail9[2] == '(' and tk(e - 6)[0] == 'id' and tail9[4:] == [')', '.', 'enumerate', '(', ')'] and e - 9 > q + 6:
                    # R4c: `for (J, P) in X.chunks_mut(N).enumerate() { B }` -> `for J in verif_it: 0..verif_chunk_count(X.len(), N) { let P = verif_chunk_mut(X, J, N); B }`
                    # (std semantics of chunks_mut: ceil(len/N) chunks of N elements, the last one shorter; N == 0 panics)
                    xexpr = text[tk(q + 7)[2]:tk(e - 10)[3]]
                    iv = tk(q + 2)[1]; pv = tk(q + 4)[1]; nexpr = tk(e - 6)[1]
                    cb = match_close(toks, ci, e)
                    nloop_b += 1
                    s0 = tk(q)[2]; e0 = tk(e)[3]
                    new = ('for %s in verif_it: 0..verif_chunk_count(%s.len(), %s) %s{%s let %s = %s(%s, %s, %s);'
                           % (iv, xexpr, nexpr, G('iterloop %d' % nloop_b, '\n' + blocks.get('iterloop %d' % nloop_b, '').rstrip() + '\n'),
                              G('iterbody %d' % nloop_b, '\n' + blocks.get('iterbody %d' % nloop_b, '').rstrip() + '\n') if blocks.get('iterbody %d' % nloop_b) else '',
                              pv, 'verif_chunk_mut_s' if opts.get('chunkslice') == '1' else 'verif_chunk_mut', xexpr, iv, nexpr))   # chunkslice=1: X is a `&mut [T]` (reborrowed), not a Vec
                    edits.append((s0, e0, R('4', text[s0:e0], new)))
                    pos = tk(cb)[2]
                    edits.append((pos, pos, G('iterend %d' % nloop_b, '\n' + blocks.get('iterend %d' % nloop_b, '').rstrip() + '\n')))
                    r4_spans.append((s0, e0))
                    rewrites_log.append({'rule': 'R4', 'fn': item.name, 'before': re.sub(r'\s+', ' ', text[s0:e0])[:200], 'after': re.sub(r'/\*@G.*?\*/.*?/\*@/G\*/', '', new, flags=re.S)[:200]})
                    q = e + 1; continue
                if len(tail) == 8 and tail[0] == '.' and tail[1] in ('iter', 'iter_mut') and tail[2:] == ['(', ')', '.', 'enumerate', '(', ')'] and e - 8 > q + 6:
                    xexpr = text[tk(q + 7)[2]:tk(e - 9)[3]]
                    iv = tk(q + 2)[1]; pv = tk(q + 4)[1]; mut = tail[1] == 'iter_mut'
                    cb = match_close(toks, ci, e)
                    nloop_b += 1
                    s0 = tk(q)[2]; e0 = tk(e)[3]
                    new = ('for %s in verif_it: 0..%s.len() %s{%s let %s = &%s%s[%s];'
                           % (iv, xexpr, G('iterloop %d' % nloop_b, '\n' + blocks.get('iterloop %d' % nloop_b, '').rstrip() + '\n'),
                              G('iterbody %d' % nloop_b, '\n' + blocks.get('iterbody %d' % nloop_b, '').rstrip() + '\n') if blocks.get('iterbody %d' % nloop_b) else '',
                              pv, 'mut ' if mut else '', xexpr, iv))
                    edits.append((s0, e0, R('4', text[s0:e0], new)))
                    pos = tk(cb)[2]
                    edits.append((pos, pos, G('iterend %d' % nloop_b, '\n' + blocks.get('iterend %d' % nloop_b, '').rstrip() + '\n')))
                    r4_spans.append((s0, e0))
                    rewrites_log.append({'rule': 'R4', 'fn': item.name, 'before': re.sub(r'\s+', ' ', text[s0:e0])[:200], 'after': re.sub(r'/\*@G.*?\*/.*?/\*@/G\*/', '', new, flags=re.S)[:200]})
                    q = e + 1; continue
            q += 1

    # ---- R4f (opt fmax=1): `X.iter().map(|P| BODY).reduce(f64::max).unwrap()` with X an identifier
    #      ->  `{ if X.len() == 0 { <panic site> } let mut verif_m = { let P = X[0]; BODY }; for verif_k in verif_fm: 1..X.len() { let P = X[verif_k]; verif_m = verif_f64_max(verif_m, BODY); } verif_m }`
    #      (std semantics of Iterator::map / reduce: left fold over the elements in order, None - hence the unwrap panic - exactly for an empty slice; elements are Copy).
    #      Inside BODY, `R.abs()` becomes `verif_f64_abs(R)` (rule R13; R an identifier or a parenthesised expression). Ghost text: blocks `fmaxloop k` (invariants), `fmaxend k` (end of loop body).
    if opts.get('fmax') == '1' and not as_stub:
        q = bodyp + 1; nf = 0
        while q < bodye - 20:
            pat = [tk(q + i)[1] for i in range(1, 9)]
            if tk(q)[0] == 'id' and pat[:7] == ['.', 'iter', '(', ')', '.', 'map', '('] and tk(q + 8)[1] == '|' and tk(q + 9)[0] == 'id' and tk(q + 10)[1] == '|':
                cm = match_close(toks, ci, q + 7)
                tail = [tk(cm + i)[1] for i in range(1, 12)]
                if tail == ['.', 'reduce', '(', 'f64', '::', 'max', ')', '.', 'unwrap', '(', ')']:
                    nf += 1; x = tk(q)[1]; pv = tk(q + 9)[1]
                    btxt = text[tk(q + 11)[2]:tk(cm - 1)[3]]
                    # R13 inside BODY: RECV.abs() -> verif_f64_abs(RECV)
                    btoks = tokenize(btxt); bci = code_tokens(btoks)
                    bed = []
                    for bi in range(len(bci) - 3):
                        if btoks[bci[bi]][1] == '.' and btoks[bci[bi + 1]][1] == 'abs' and btoks[bci[bi + 2]][1] == '(' and btoks[bci[bi + 3]][1] == ')' and bi >= 1:
                            pr = bi - 1
                            if btoks[bci[pr]][1] == ')':
                                d = 0; k2 = pr
                                while k2 >= 0:
                                    if btoks[bci[k2]][1] == ')': d += 1
                                    elif btoks[bci[k2]][1] == '(':
                                        d -= 1
                                        if d == 0: break
                                    k2 -= 1
                                rs = btoks[bci[k2]][2]
                            elif btoks[bci[pr]][0] == 'id':
                                # receiver is a place expression `a.b.c`: walk back over the field chain
                                while pr >= 2 and btoks[bci[pr - 1]][1] == '.' and btoks[bci[pr - 2]][0] == 'id': pr -= 2
                                rs = btoks[bci[pr]][2]
                            else: raise GenErr('%s: R13 receiver of .abs() not recognised' % item.name)
                            bed.append((rs, rs, 'verif_f64_abs(')); bed.append((btoks[bci[bi]][2], btoks[bci[bi + 3]][3], ')'))
                    body2 = apply_edits(btxt, bed)
                    stub = 'verif_refuse()' if mode == 'refuse' else 'verif_unreachable()'
                    s0 = tk(q)[2]; e0 = tk(cm + 11)[3]
                    newt = ('{ if %s.len() == 0 { %s; } let mut verif_m = { let %s = %s[0]; %s }; %sfor verif_k in verif_fm: 1..%s.len() %s{ let %s = %s[verif_k]; let ghost verif_m0 = verif_m; verif_m = verif_f64_max(verif_m, %s); %s} verif_m }'
                            % (x, stub, pv, x, body2, G('fmaxinit %d' % nf, '\n' + blocks.get('fmaxinit %d' % nf, '').rstrip() + '\n'), x, G('fmaxloop %d' % nf, '\n' + blocks.get('fmaxloop %d' % nf, '').rstrip() + '\n'), pv, x, body2,
                               G('fmaxend %d' % nf, '\n' + blocks.get('fmaxend %d' % nf, '').rstrip() + '\n')))
                    edits.append((s0, e0, R('4', text[s0:e0], newt)))
                    r4_spans.append((s0, e0))
                    rewrites_log.append({'rule': 'R4', 'fn': item.name, 'before': re.sub(r'\s+', ' ', text[s0:e0])[:200], 'after': re.sub(r'/\*@G.*?\*/.*?/\*@/G\*/', '', newt, flags=re.S)[:240]})
                    q = cm + 12; continue
            q += 1

    # ---- R4e (opt foreach=a,b): `for V in X {` with X one of the named reference-to-Vec/slice variables
    #      ->  `for verif_eN in 0..X.len() { let V = &X[verif_eN];`   (std semantics of IntoIterator for &Vec<T> / &[T]: the elements by reference, in order).
    #      The `for` keeps its place, so loop / loopiter / loopstart / loopend blocks address it by ordinal as usual.
    if (opts.get('foreach') or opts.get('foreachval')) and not as_stub:
        names = (opts.get('foreach') or '').split(',') + (opts.get('foreachval') or '').split(',')      # whitespace-free source text of the iterated expression: `coeff_modulus`, `&self.data`, ...
        byval = (opts.get('foreachval') or '').split(',')      # owned Vec of Copy elements iterated by value: `let v = X[k];`
        q = bodyp + 1; ne = 0
        while q < bodye - 5:
            amp = 1 if (tk(q)[1] == 'for' and tk(q + 1)[1] == '&' and tk(q + 2)[0] == 'id' and tk(q + 3)[1] == 'in') else 0      # `for &v in X`: the elements by value
            if amp: q += 1
            if tk(q - amp)[1] == 'for' and tk(q + 1)[0] == 'id' and tk(q + 2)[1] == 'in':
                e = q + 3
                while e < bodye and tk(e)[1] != '{' and e - q < 12: e += 1
                xt = ''.join(tk(i)[1] for i in range(q + 3, e))
                if tk(e)[1] == '{' and xt and xt in names:
                    ne += 1; v = tk(q + 1)[1]; x = xt[1:] if xt.startswith('&') else xt; iv = 'verif_e%d' % ne
                    if x.endswith('.iter()'): x = x[:-7]      # `for v in X.iter()`: the same elements by reference
                    edits.append((tk(q + 1 - amp)[2], tk(q + 1)[3], R('4', text[tk(q + 1 - amp)[2]:tk(q + 1)[3]], iv)))
                    edits.append((tk(q + 3)[2], tk(e - 1)[3], R('4', text[tk(q + 3)[2]:tk(e - 1)[3]], '0..%s.len()' % x)))
                    edits.append((tk(e)[3], tk(e)[3], R('4', '', ' let %s = %s%s[%s];' % (v, '' if (xt in byval or amp) else '&', x, iv))))
                    rewrites_log.append({'rule': 'R4', 'fn': item.name, 'before': 'for %s in %s {' % (v, xt), 'after': 'for %s in 0..%s.len() { let %s = &%s[%s];' % (iv, x, v, x, iv)})
                    q = e + 1; continue
            q += 1

    # ---- R4g (opt rangeiter=1): `for V in X[LO..HI].iter() {` / `.iter_mut() {` with X any expression without braces
    #      ->  `for verif_rN in LO..HI {`, and every `*V` in the loop body becomes `X[verif_rN]`
    #      (std semantics of slice range indexing + iter / iter_mut: the elements LO..HI of X in order, by reference; an out-of-range HI panics at the slicing -
    #       here at the first out-of-range element access, a difference only on paths that panic either way). LO and HI are the source's own expressions.
    #      The `for` keeps its place, so loop / loopiter / loopstart / loopend blocks address it by ordinal as usual.
    if opts.get('rangeiter') == '1' and not as_stub:
        q = bodyp + 1; nr = 0
        while q < bodye - 8:
            if tk(q)[1] == 'for' and tk(q + 1)[0] == 'id' and tk(q + 2)[1] == 'in':
                e = q + 3; dpt = 0
                while e < bodye and not (tk(e)[1] == '{' and dpt == 0):
                    if tk(e)[1] in ('(', '['): dpt += 1
                    elif tk(e)[1] in (')', ']'): dpt -= 1
                    e += 1
                if tk(e)[1] == '{' and [tk(e - 4)[1], tk(e - 2)[1], tk(e - 1)[1]] == ['.', '(', ')'] and tk(e - 3)[1] in ('iter', 'iter_mut') and tk(e - 5)[1] == ']':
                    # matching '[' of the range index
                    ob = e - 6; dpt = 0
                    while ob > q + 3:
                        if tk(ob)[1] in (')', ']'): dpt += 1
                        elif tk(ob)[1] in ('(', '['):
                            if dpt == 0: break
                            dpt -= 1
                        ob -= 1
                    dd = []; dpt = 0
                    for i in range(ob + 1, e - 5):
                        if tk(i)[1] in ('(', '['): dpt += 1
                        elif tk(i)[1] in (')', ']'): dpt -= 1
                        elif tk(i)[1] == '..' and dpt == 0: dd.append(i)
                    if tk(ob)[1] == '[' and ob > q + 3 and len(dd) == 1 and dd[0] > ob + 1 and dd[0] < e - 6:
                        nr += 1; v = tk(q + 1)[1]; iv = 'verif_r%d' % nr
                        xexpr = text[tk(q + 3)[2]:tk(ob - 1)[3]]
                        lo = text[tk(ob + 1)[2]:tk(dd[0] - 1)[3]]; hi = text[tk(dd[0] + 1)[2]:tk(e - 6)[3]]
                        cb = match_close(toks, ci, e)
                        edits.append((tk(q + 1)[2], tk(q + 1)[3], R('4', v, iv)))
                        edits.append((tk(q + 3)[2], tk(e - 1)[3], R('4', text[tk(q + 3)[2]:tk(e - 1)[3]], '%s..%s' % (lo, hi))))
                        for i in range(e + 1, cb):
                            if tk(i)[0] == 'id' and tk(i)[1] == v:
                                if tk(i - 1)[1] != '*' or tk(i - 2)[0] == 'id' or tk(i - 2)[1] in (')', ']'):
                                    raise GenErr('%s: R4g: loop variable `%s` used other than as `*%s`' % (item.name, v, v))
                                edits.append((tk(i - 1)[2], tk(i)[3], R('4', text[tk(i - 1)[2]:tk(i)[3]], '%s[%s]' % (xexpr, iv))))
                        rewrites_log.append({'rule': 'R4', 'fn': item.name, 'before': re.sub(r'\s+', ' ', text[tk(q)[2]:tk(e)[3]])[:200], 'after': 'for %s in %s..%s { ... %s[%s] ... }' % (iv, lo, hi, xexpr, iv)})
                        q = e + 1; continue
            q += 1

    # ---- R4d (opt iter=1): `X.iter().for_each(|P| { B });` with X any place expression (e.g. self.coeff_modulus)
    #      ->  `for verif_k in verif_it: 0..X.len() { let P = &X[verif_k]; B }`   (ghost text: iterloop / iterbody / iterend, numbered after R4/R4b loops)
    if opts.get('iter') == '1' and not as_stub:
        q = bodyp + 1
        nloop_d = sum(1 for r in rewrites_log if r.get('rule') == 'R4' and r.get('fn') == item.name)
        while q < bodye - 8:
            if (q == bodyp + 1 or tk(q - 1)[1] in (';', '{', '}')) and tk(q)[0] == 'id' and not any(a0 <= tk(q)[2] < b0 for (a0, b0) in r4_spans):
                # scan a place expression: id (. id)*
                e = q
                while tk(e + 1)[1] == '.' and tk(e + 2)[0] == 'id' and tk(e + 2)[1] not in ('iter',): e += 2
                if e > q and [tk(e + i)[1] for i in range(1, 10)][:9] == ['.', 'iter', '(', ')', '.', 'for_each', '(', '|', tk(e + 9)[1]] and tk(e + 9)[0] == 'id' and tk(e + 10)[1] == '|' and tk(e + 11)[1] == '{':
                    xexpr = text[tk(q)[2]:tk(e)[3]]; pv = tk(e + 9)[1]
                    cb = match_close(toks, ci, e + 11); fe = match_close(toks, ci, e + 7)
                    if fe == cb + 1 and tk(fe + 1)[1] == ';':
                        nloop_d += 1
                        s0 = tk(q)[2]; e0 = tk(e + 11)[3]
                        new = ('for verif_k in verif_it: 0..%s.len() %s{%s let %s = &%s[verif_k];'
                               % (xexpr, G('iterloop %d' % nloop_d, '\n' + blocks.get('iterloop %d' % nloop_d, '').rstrip() + '\n'),
                                  G('iterbody %d' % nloop_d, '\n' + blocks.get('iterbody %d' % nloop_d, '').rstrip() + '\n') if blocks.get('iterbody %d' % nloop_d) else '',
                                  pv, xexpr))
                        edits.append((s0, e0, R('4', text[s0:e0], new)))
                        pos = tk(cb)[2]
                        edits.append((pos, pos, G('iterend %d' % nloop_d, '\n' + blocks.get('iterend %d' % nloop_d, '').rstrip() + '\n')))
                        # drop the closing `)` and `;` of for_each( ... );
                        edits.append((tk(fe)[2], tk(fe + 1)[3], R('4', text[tk(fe)[2]:tk(fe + 1)[3]], '')))
                        r4_spans.append((s0, e0))
                        rewrites_log.append({'rule': 'R4', 'fn': item.name, 'before': re.sub(r'\s+', ' ', text[s0:e0])[:200], 'after': re.sub(r'/\*@G.*?\*/.*?/\*@/G\*/', '', new, flags=re.S)[:200]})
                        q = e + 12; continue
            q += 1

    # ---- R12 (opt nocontinue=1): Verus' for-loops do not support `continue`. A statement `if C {continue;}` that is a DIRECT child of a loop body
    #      `{ A; if C {continue;} R }` is rewritten into `{ A; if !(C) { R } }` (same control flow: when C holds the rest of the body is skipped).
    if opts.get('nocontinue') == '1' and not as_stub:
        q = bodyp + 1
        while q < bodye - 5:
            if tk(q)[1] == 'if' and (tk(q - 1)[1] in (';', '{', '}')):
                ob = q + 1; d2 = 0
                while ob < bodye and not (tk(ob)[1] == '{' and d2 == 0):
                    if tk(ob)[1] in ('(', '['): d2 += 1
                    elif tk(ob)[1] in (')', ']'): d2 -= 1
                    ob += 1
                if tk(ob + 1)[1] == 'continue' and tk(ob + 2)[1] == ';' and tk(ob + 3)[1] == '}' and tk(ob + 4)[1] != 'else':
                    # enclosing block
                    depth = 0; b = q - 1
                    while b > bodyp:
                        if tk(b)[1] in CLOSE: depth += 1
                        elif tk(b)[1] in OPEN:
                            if depth == 0: break
                            depth -= 1
                        b -= 1
                    # header of the enclosing block must start with for / while / loop
                    h = b - 1
                    while h > bodyp and tk(h)[1] not in (';', '{', '}'): h -= 1
                    if tk(b)[1] == '{' and tk(h + 1)[1] in ('for', 'while', 'loop'):
                        cbe = match_close(toks, ci, b)
                        cond = text[tk(q + 1)[2]:tk(ob - 1)[3]]
                        s0 = tk(q)[2]; e0 = tk(ob + 3)[3]
                        edits.append((s0, e0, R('12', text[s0:e0], 'if !(%s) {' % cond)))
                        pos = tk(cbe)[2]
                        edits.append((pos, pos, R('12', '', '}')))
                        rewrites_log.append({'rule': 'R12', 'fn': item.name, 'before': re.sub(r'\s+', ' ', text[s0:e0]), 'after': 'if !(%s) { <rest of the loop body> }' % cond})
                        q = ob + 4; continue
            q += 1

    # ---- R11: `&mut X[A..B]` on a slice parameter X -> verif_slice_mut(X, A, B) (opt slicemut=1): Verus has no specification
    #      for mutable range indexing; the stub carries the std semantics as an ASSUMED contract.
    if opts.get('slicemut') == '1' and not as_stub:
        q = bodyp + 1
        while q < bodye - 3:
            if tk(q)[1] == '&' and tk(q + 1)[1] == 'mut' and tk(q + 2)[0] == 'id' and tk(q + 3)[1] == '[':
                cb = match_close(toks, ci, q + 3)
                dd = [i for i in range(q + 4, cb) if tk(i)[1] == '..']
                depth_ok = []
                for i in dd:
                    depth = 0
                    for j2 in range(q + 4, i):
                        if tk(j2)[1] in OPEN: depth += 1
                        elif tk(j2)[1] in CLOSE: depth -= 1
                    if depth == 0: depth_ok.append(i)
                if len(depth_ok) == 1:
                    i = depth_ok[0]
                    a = text[tk(q + 4)[2]:tk(i - 1)[3]] if i > q + 4 else '0'
                    b = text[tk(i + 1)[2]:tk(cb - 1)[3]] if i + 1 < cb else '%s.len()' % tk(q + 2)[1]
                    s0 = tk(q)[2]; e0 = tk(cb)[3]
                    if not any(a0 <= s0 < b0 for (a0, b0) in r4_spans):
                        # opt slicevec=a,b : the named bases are local Vecs, not slice parameters
                        if tk(q + 2)[1] in opts.get('slicevec', '').split(','): call = 'verif_vec_slice_mut(&mut %s, %s, %s)' % (tk(q + 2)[1], a, b)
                        else: call = 'verif_slice_mut(%s, %s, %s)' % (tk(q + 2)[1], a, b)
                        edits.append((s0, e0, R('11', text[s0:e0], call)))
                        rewrites_log.append({'rule': 'R11', 'fn': item.name, 'before': text[s0:e0], 'after': call})
                    q = cb + 1; continue
            q += 1

    # user rewrites are located first: automatic rewrites inside their spans are suppressed
    user_spans = []
    for rw in blocks.get('_rewrites', []):
        frm, to, which = rw
        occ = find_code_occurrences(text, toks, ci, bodyp, bodye, frm)
        if not occ and which == 'all': continue      # `rewrite all` applies to every occurrence, including none
        if not occ:
            raise GenErr('%s: rewrite anchor %r not found' % (item.name, frm))
        sel = occ if which == 'all' else [occ[which - 1]] if which <= len(occ) else None
        if sel is None:
            raise GenErr('%s: rewrite anchor %r occurrence %s not found' % (item.name, frm, which))
        for (s0, e0) in sel:
            user_spans.append((s0, e0, frm, to))
    def in_user(pos):
        return any(a <= pos < b for (a, b, _, _) in user_spans) or any(a <= pos < b for (a, b) in r4_spans)

    # ---- body rewrites (R3 / R9) ----
    p = bodyp + 1
    while p < bodye:
        x = tk(p)
        if in_user(x[2]):
            p += 1; continue
        if x[0] == 'id' and p + 2 < bodye and tk(p + 1)[1] == '!' and tk(p + 2)[1] in OPEN and tk(p + 1)[2] == x[3]:
            mname = x[1]
            ob = p + 2; cb = match_close(toks, ci, ob)
            s0 = x[2]; e0 = tk(cb)[3]
            orig = text[s0:e0]
            new = None
            if mname in MACRO_PANIC:
                if mode == 'keep': new = None
                else: new = 'verif_refuse()' if mode == 'refuse' else 'verif_unreachable()'
            elif mname in MACRO_ASSERT and mode != 'keep':
                parts = split_top_commas(toks, ci, ob + 1, cb)
                def ptxt(pr): return text[tk(pr[0])[2]:tk(pr[1] - 1)[3]]
                stub = 'verif_refuse()' if mode == 'refuse' else 'verif_unreachable()'
                if mname == 'assert':
                    new = 'if !(%s) { %s; }' % (ptxt(parts[0]), stub)
                elif mname == 'assert_eq':
                    new = 'if !((%s) == (%s)) { %s; }' % (ptxt(parts[0]), ptxt(parts[1]), stub)
                else:
                    new = 'if !((%s) != (%s)) { %s; }' % (ptxt(parts[0]), ptxt(parts[1]), stub)
            elif mname in MACRO_DEBUG or mname in MACRO_PRINT:
                new = '()' if mname != 'dbg' else None
            if new is not None:
                edits.append((s0, e0, R('3' if mname not in MACRO_PRINT + MACRO_DEBUG else '9', orig, new)))
                rewrites_log.append({'rule': 'R3' if mname not in MACRO_PRINT + MACRO_DEBUG else 'R9', 'fn': item.name,
                                     'before': re.sub(r'\s+', ' ', orig)[:160], 'after': new[:160]})
                p = cb + 1; continue
        if mode == 'refuse' and x[1] == '.' and p + 2 < bodye and tk(p + 1)[0] == 'id' and tk(p + 1)[1] in ('unwrap', 'expect') and tk(p + 2)[1] == '(':
            cb = match_close(toks, ci, p + 2)
            s0 = tk(p + 1)[2]; e0 = tk(cb)[3]
            orig = text[s0:e0]
            edits.append((s0, e0, R('3', orig, 'verif_unwrap()')))
            rewrites_log.append({'rule': 'R3', 'fn': item.name, 'before': orig[:80], 'after': 'verif_unwrap()'})
            p = cb + 1; continue
        p += 1

    # ---- user rewrites: //@ rewrite "<literal>" => "<literal>"  (each recorded as RU)
    for (s0, e0, frm, to) in user_spans:
        edits.append((s0, e0, R('U', text[s0:e0], to)))
        rewrites_log.append({'rule': 'RU', 'fn': item.name, 'before': frm, 'after': to})

    # ---- ghost splices ----
    start = blocks.get('start', '')
    if start.strip():
        pos = tk(bodyp)[3]
        edits.append((pos, pos, G('start', '\n' + start.rstrip() + '\n')))
    # loops by ordinal
    loops = []
    p = bodyp + 1
    while p < bodye:
        x = tk(p)
        if x[0] == 'id' and x[1] in ('for', 'while', 'loop'):
            # `for` in `for<'a>` types or impl ... for: not inside bodies normally
            q = p + 1; depth = 0
            while q < bodye:
                y = tk(q)
                if y[0] == 'punct':
                    if y[1] in ('(', '['): depth += 1
                    elif y[1] in (')', ']'): depth -= 1
                    elif y[1] == '{' and depth == 0: break
                q += 1
            loops.append((p, q))
        p += 1
    for key, gtxt in blocks.items():
        if key.startswith('loopiter '):
            k = int(key.split()[1]); nm = key.split()[2]
            if k < 1 or k > len(loops): raise GenErr('%s: loop #%d not found' % (item.name, k))
            lp = loops[k - 1][0]
            if tk(lp)[1] != 'for': raise GenErr('%s: loop #%d is not a for loop' % (item.name, k))
            q = lp + 1
            while q < loops[k - 1][1] and not (tk(q)[0] == 'id' and tk(q)[1] == 'in'): q += 1
            pos = tk(q)[3]
            edits.append((pos, pos, G(key, ' %s: ' % nm)))
        elif key.startswith('iterloop ') or key.startswith('iterend ') or key.startswith('iterbody ') or key.startswith('fmaxloop ') or key.startswith('fmaxend ') or key.startswith('fmaxinit '):
            continue
        elif key.startswith('loop '):
            k = int(key.split()[1])
            if k < 1 or k > len(loops):
                raise GenErr('%s: loop #%d not found (%d loops)' % (item.name, k, len(loops)))
            pos = tk(loops[k - 1][1])[2]
            edits.append((pos, pos, G(key, '\n' + gtxt.rstrip() + '\n')))
        elif key.startswith('before ') or key.startswith('after ') or key.startswith('loopend ') or key.startswith('blockend ') or key.startswith('loopstart ') or key.startswith('afterloop '):
            kind, n, anchor = key.split(' ', 2)
            n = int(n)
            if kind in ('loopstart', 'afterloop'):
                # structural anchors: first thing in the body of loop n / right after loop n (no source text to lose)
                if n < 1 or n > len(loops): raise GenErr('%s: loop #%d not found' % (item.name, n))
                if kind == 'loopstart': pos = tk(loops[n - 1][1])[3]
                else: pos = tk(match_close(toks, ci, loops[n - 1][1]))[3]
                edits.append((pos, pos, G(key, '\n' + gtxt.rstrip() + '\n')))
                continue
            if kind == 'loopend':
                k = n
                if k < 1 or k > len(loops):
                    raise GenErr('%s: loop #%d not found' % (item.name, k))
                cbp = match_close(toks, ci, loops[k - 1][1])
                pos = tk(cbp)[2]
                # a body that ends in an expression statement without `;` (e.g. `i += 1 }`): the ghost text supplies the `;`
                semi = ';' if tk(cbp - 1)[1] not in (';', '}', '{') else ''
                edits.append((pos, pos, G(key, semi + '\n' + gtxt.rstrip() + '\n')))
                continue
            occ = find_code_occurrences(text, toks, ci, bodyp, bodye, anchor)
            if n > len(occ):
                raise GenErr('%s: anchor %r occurrence %d not found' % (item.name, anchor, n))
            s0, e0 = occ[n - 1]
            if kind == 'blockend':
                # end of the block that CONTAINS the anchored statement (robust against edits of the statements after the anchor)
                pp = next(i for i in range(len(ci)) if toks[ci[i]][2] >= s0)
                depth = 0; pos = None
                while pp <= bodye:
                    y = tk(pp)
                    if y[0] == 'punct':
                        if y[1] in OPEN: depth += 1
                        elif y[1] in CLOSE:
                            depth -= 1
                            if depth < 0: pos = y[2]; break
                    pp += 1
                if pos is None: raise GenErr('%s: no enclosing block end for anchor %r' % (item.name, anchor))
                edits.append((pos, pos, G(key, '\n' + gtxt.rstrip() + '\n')))
                continue
            if kind == 'before':
                ls = text.rfind('\n', 0, s0) + 1
                # only whitespace may precede on the line, else insert right at the anchor
                pos = ls if text[ls:s0].strip() == '' else s0
                edits.append((pos, pos, G(key, '\n' + gtxt.rstrip() + '\n')))
            else:
                # after the end of the statement containing the anchor: next ';' at relative depth 0
                # (depth counted from anchor start)
                pp = next(i for i in range(len(ci)) if toks[ci[i]][2] >= s0)
                depth = 0; pos = None
                if tk(pp)[1] in ('if', 'for', 'while', 'loop', 'match', 'unsafe'):
                    # block statement: ends at the closing brace of its block (following `else` chains), not at the next `;`
                    q2 = pp
                    while True:
                        d2 = 0
                        while q2 <= bodye and not (tk(q2)[1] == '{' and d2 == 0):
                            if tk(q2)[1] in ('(', '['): d2 += 1
                            elif tk(q2)[1] in (')', ']'): d2 -= 1
                            q2 += 1
                        cb2 = match_close(toks, ci, q2)
                        if cb2 + 1 <= bodye and tk(cb2 + 1)[1] == 'else': q2 = cb2 + 2; continue
                        break
                    pos = tk(cb2)[3]
                    if cb2 + 1 <= bodye and tk(cb2 + 1)[1] == ';': pos = tk(cb2 + 1)[3]
                    edits.append((pos, pos, G(key, '\n' + gtxt.rstrip() + '\n')))
                    continue
                while pp <= bodye:
                    y = tk(pp)
                    if y[0] == 'punct':
                        if y[1] in OPEN: depth += 1
                        elif y[1] in CLOSE:
                            depth -= 1
                            if depth < 0: break
                        elif y[1] == ';' and depth == 0:
                            pos = y[3]; break
                    pp += 1
                if pos is None and pp <= bodye and tk(pp)[1] == '}':
                    # anchor is the block's tail expression (no `;`): the ghost text supplies the `;`
                    pos = tk(pp)[2]
                    edits.append((pos, pos, G(key, ';\n' + gtxt.rstrip() + '\n')))
                    continue
                if pos is None:
                    raise GenErr('%s: no statement end after anchor %r' % (item.name, anchor))
                edits.append((pos, pos, G(key, '\n' + gtxt.rstrip() + '\n')))
    end = blocks.get('tail', '')
    if end.strip():
        pos = tk(bodye)[2]
        edits.append((pos, pos, G('tail', '\n' + end.rstrip() + '\n')))
    return apply_edits(text, edits)


def find_code_occurrences(text, toks, ci, lo, hi, anchor):
    """occurrences of anchor (compared on whitespace-free code-token text) in code tokens [lo,hi]; returns char spans."""
    a = code_texts(anchor)
    if not a:
        raise GenErr('empty anchor')
    res = []
    for p in range(lo, hi - len(a) + 2):
        ok = True
        for j, w in enumerate(a):
            if toks[ci[p + j]][1] != w:
                ok = False; break
        if ok:
            res.append((toks[ci[p]][2], toks[ci[p + len(a) - 1]][3]))
    return res


def apply_edits(text, edits):
    # stable: sort by start; insertions at same pos keep given order
    edits = sorted(enumerate(edits), key=lambda e: (e[1][0], e[1][1], e[0]))
    out = []; pos = 0
    for _, (s, e, rep) in edits:
        if s < pos:
            raise GenErr('overlapping edits at %d' % s)
        out.append(text[pos:s]); out.append(rep); pos = e
    out.append(text[pos:])
    return ''.join(out)


def extract_plain(item, opts, rewrites_log, blocks=None):
    """struct / enum / const: drop `pub` tokens (R1) everywhere in the item, keep the rest verbatim"""
    text = item.text
    toks = tokenize(text); ci = code_tokens(toks)
    edits = []
    p = 0
    while p < len(ci):
        x = toks[ci[p]]
        if x[0] == 'punct' and x[1] == '#' and p + 1 < len(ci) and toks[ci[p + 1]][1] == '[':
            cb = match_close(toks, ci, p + 1)
            s0 = x[2]; e0 = toks[ci[cb]][3]
            edits.append((s0, e0, R('1', text[s0:e0], '')))
            p = cb + 1; continue
        if x[0] == 'id' and x[1] == 'pub':
            s0 = x[2]; e0 = x[3]
            if p + 1 < len(ci) and toks[ci[p + 1]][1] == '(':
                cb = match_close(toks, ci, p + 1)
                e0 = toks[ci[cb]][3]; p = cb
            edits.append((s0, e0, R('1', text[s0:e0], '')))
        p += 1
    if edits:
        rewrites_log.append({'rule': 'R1', 'fn': item.name, 'before': 'pub (x%d)' % len(edits), 'after': ''})
    # user rewrites (RU) on a struct / enum / const: e.g. a field type Verus has no model of replaced by an opaque stand-in
    for (frm, to, which) in (blocks or {}).get('_rewrites', []):
        occ = find_code_occurrences(text, toks, ci, 0, len(ci) - 1, frm)
        if not occ: raise GenErr('%s: rewrite anchor %r not found' % (item.name, frm))
        sel = occ if which == 'all' else [occ[which - 1]] if which <= len(occ) else None
        if sel is None: raise GenErr('%s: rewrite anchor %r occurrence %s not found' % (item.name, frm, which))
        for (s0, e0) in sel:
            edits.append((s0, e0, R('U', text[s0:e0], to)))
            rewrites_log.append({'rule': 'RU', 'fn': item.name, 'before': frm, 'after': to})
    return apply_edits(text, edits)


DIRECTIVE = re.compile(r'^\s*//@\s*(.*)$')


def parse_kv(words):
    opts = {}
    rest = []
    for w in words:
        if '=' in w and not w.startswith('"'):
            k, v = w.split('=', 1); opts[k] = v
        else:
            rest.append(w)
    return rest, opts


class Unit:
    def __init__(self, name):
        self.name = name
        self.properties = []
        self.min_verified = 1
        self.rlimit = None
        self.segments = []   # (text, origin)
        self.functions = []  # dict(name, path, line, sha, out_start, out_end, stub)
        self.rewrites = []
        self.spec_files = []
        self.imports = []
        self.has_canary = False

    def emit(self, text, origin):
        self.segments.append((text, origin))


def read_spec_lines(path, seen=None):
    """returns list of (line_text, file, lineno) with //@ include expanded"""
    seen = seen or []
    if path in seen: raise GenErr('recursive include ' + path)
    out = []
    try:
        lines = open(path).read().split('\n')
    except OSError as e:
        raise GenErr('cannot read spec %s' % path)
    for n, l in enumerate(lines, 1):
        m = DIRECTIVE.match(l)
        if m and m.group(1).startswith('include '):
            inc = m.group(1).split()[1]
            out.extend(read_spec_lines(os.path.join(SPECS, inc), seen + [path]))
        else:
            out.append((l, path, n))
    return out


def parse_extract_blocks(lines, i):
    """lines[i] is the `//@ extract` directive. returns (blocks, next_i). blocks maps key->ghost text."""
    blocks = {'_rewrites': [], '_lines': {}}
    cur = None; buf = []
    j = i + 1
    while j < len(lines):
        l, f, n = lines[j]
        m = DIRECTIVE.match(l)
        if m:
            d = m.group(1).strip()
            if cur is not None:
                blocks[cur] = '\n'.join(buf)
            buf = []
            if d == 'end':
                return blocks, j + 1
            if d.startswith('rewrite '):
                mm = re.match(r'rewrite\s+(?:(\d+|all)\s+)?"(.*)"\s*=>\s*"(.*)"\s*$', d)
                if not mm: raise GenErr('%s:%d bad rewrite directive' % (f, n))
                which = mm.group(1) or '1'
                blocks['_rewrites'].append((mm.group(2).replace('\\"', '"'), mm.group(3).replace('\\"', '"'), 'all' if which == 'all' else int(which)))
                cur = None
            elif d.split()[0] in ('sig', 'start', 'tail', 'header'):
                cur = d.split()[0]
            elif d.split()[0] == 'loopiter':
                cur = 'loopiter %d %s' % (int(d.split()[1]), d.split()[2])
            elif d.split()[0] in ('iterloop', 'iterend', 'iterbody', 'fmaxloop', 'fmaxend', 'fmaxinit'):
                cur = '%s %d' % (d.split()[0], int(d.split()[1]))
            elif d.split()[0] in ('loop', 'loopend', 'loopstart', 'afterloop'):
                cur = '%s %d' % (d.split()[0], int(d.split()[1])) if d.split()[0] == 'loop' else '%s %d -' % (d.split()[0], int(d.split()[1]))
            elif d.split()[0] in ('before', 'after', 'blockend'):
                mm = re.match(r'(before|after|blockend)\s+(?:(\d+)\s+)?(.+)$', d)
                cur = '%s %d %s' % (mm.group(1), int(mm.group(2) or 1), mm.group(3).strip())
            else:
                raise GenErr('%s:%d unknown sub-directive %r' % (f, n, d))
            if cur is not None:
                blocks['_lines'][cur] = (f, n)
                if cur in blocks: raise GenErr('%s:%d duplicate block %r' % (f, n, cur))
        else:
            if cur is not None: buf.append(l)
            elif l.strip(): raise GenErr('%s:%d text outside a block in extract' % (f, n))
        j += 1
    raise GenErr('unterminated extract block')


_spec_contracts = {}


def unit_contracts(unit_name):
    """parse another unit's vspec and return {(path,name,impl): (opts, blocks)} for its fn extracts"""
    if unit_name in _spec_contracts: return _spec_contracts[unit_name]
    lines = read_spec_lines(os.path.join(SPECS, unit_name + '.vspec'))
    res = {}
    i = 0
    while i < len(lines):
        m = DIRECTIVE.match(lines[i][0])
        if m and (m.group(1).startswith('extract ') or m.group(1).startswith('extract! ')):
            words = shlex.split(m.group(1))
            single = words[0] == 'extract!'
            rest, opts = parse_kv(words[1:])
            if single: blocks, nxt = {'_rewrites': [], '_lines': {}}, i + 1
            else: blocks, nxt = parse_extract_blocks(lines, i)
            if rest[0] == 'fn':
                res[(rest[1], rest[2], norm(opts['impl']) if 'impl' in opts else None)] = (opts, blocks)
            i = nxt
        else:
            i += 1
    _spec_contracts[unit_name] = res
    return res


def generate(unit_name):
    spec_path = os.path.join(SPECS, unit_name + '.vspec')
    lines = read_spec_lines(spec_path)
    u = Unit(unit_name)
    # acceptance ("live") variants declared in this unit: fn name -> True (used to redirect calls inside live variants)
    live_names = set()
    for (l0, f0, n0) in lines:
        m0 = DIRECTIVE.match(l0)
        if m0 and m0.group(1).strip().startswith('live '):
            w0 = shlex.split(m0.group(1).strip())
            r0, o0 = parse_kv(w0[1:])
            live_names.add(r0[2])
    i = 0
    while i < len(lines):
        l, f, n = lines[i]
        if f not in u.spec_files: u.spec_files.append(f)
        m = DIRECTIVE.match(l)
        if not m:
            if re.match(r'^\}\s*//\s*verus!', l) and f == spec_path:
                # vacuity guard: this must FAIL; if Verus proves it the environment is inconsistent
                u.emit('proof fn verif_canary() ensures false {}\n', ('spec', f, n))
                u.has_canary = True
            u.emit(l + '\n', ('spec', f, n)); i += 1; continue
        d = m.group(1).strip()
        words = d.split()
        if not words: i += 1; continue
        if words[0] in ('extract', 'extract!', 'import', 'fragment', 'live'): words = shlex.split(d)
        if words[0] == 'unit': i += 1; continue
        if words[0] == 'property': u.properties = words[1:]; i += 1; continue
        if words[0] == 'min_verified': u.min_verified = int(words[1]); i += 1; continue
        if words[0] == 'rlimit': u.rlimit = int(words[1]); i += 1; continue   # solver budget for this unit (verus --rlimit)
        if words[0] == 'note': i += 1; continue
        if words[0] in ('extract', 'extract!'):
            rest, opts = parse_kv(words[1:])
            if words[0] == 'extract!': blocks, nxt = {'_rewrites': [], '_lines': {}}, i + 1
            else: blocks, nxt = parse_extract_blocks(lines, i)
            kind, path, name = rest[0], rest[1], rest[2]
            item = find_item(path, kind, name, opts.get('impl'))
            assumed = kind == 'fn' and opts.get('assume') == '1'
            if kind == 'fn':
                txt = extract_fn(item, opts, blocks, u.rewrites, as_stub=assumed)
            else:
                txt = extract_plain(item, opts, u.rewrites, blocks)
            check_erasure(item, txt)
            if assumed:
                txt = '#[verifier::external_body] /*@A ASSUMED contract: body not verified*/\n' + txt
            sha = hashlib.sha256(' '.join(code_texts(item.text)).encode()).hexdigest()
            u.functions.append({'name': opts.get('rename', name), 'orig_name': name, 'kind': kind, 'path': path, 'impl': opts.get('impl'),
                                'line': item.line, 'sha256': sha, 'mode': opts.get('mode', 'absent') if kind == 'fn' else None,
                                'stub': bool(assumed), 'assumed': bool(assumed), 'seg': len(u.segments), 'spec': (f, n),
                                'clauses': count_clauses(blocks)})
            u.emit('/*@X %s::%s L%d*/\n' % (path, name, item.line), ('spec', f, n))
            u.emit(txt + '\n', ('src', path, item.line, f, n))
            i = nxt; continue
        if words[0] == 'live':
            # //@ live fn <path> <name> [impl=..]   + block `sig` = extra (acceptance) preconditions, comma separated, no keyword.
            # Re-extracts <name> as <name>__live with mode=absent (every panic site must be unreachable under the acceptance
            # precondition), the SAME contract and ghost blocks as the unit's ordinary extraction of <name>, and calls to other
            # functions that have a live variant in this unit redirected to it (rule RL).
            words = shlex.split(d)
            rest, opts = parse_kv(words[1:])
            lblocks, nxt = parse_extract_blocks(lines, i)
            kind, path, name = rest[0], rest[1], rest[2]
            contracts = unit_contracts(unit_name)
            key = (path, name, norm(opts['impl']) if 'impl' in opts else None)
            if key not in contracts: raise GenErr('%s:%d live: no ordinary extraction of %s in this unit' % (f, n, key))
            copts, cblocks = contracts[key]
            item = find_item(path, 'fn', name, opts.get('impl'))
            b2 = {k2: v2 for k2, v2 in cblocks.items()}
            b2['_rewrites'] = list(cblocks.get('_rewrites', []))
            extra = lblocks.get('sig', '').strip().rstrip(',')
            osig = cblocks.get('sig', '')
            if extra:
                mreq = re.search(r'\brequires\b', osig)
                if mreq: osig = osig[:mreq.end()] + ' ' + extra + ',' + osig[mreq.end():]
                else: osig = '    requires ' + extra + ',\n' + osig
            # old(x) / final(x) style is unchanged; recursive decreases clauses stay
            b2['sig'] = osig
            for kx in lblocks:
                if kx not in ('sig', '_rewrites', '_lines'): b2[kx] = lblocks[kx]     # live-specific extra hints override
            # call redirection
            text0 = item.text; toks0 = tokenize(text0); ci0 = code_tokens(toks0)
            pats = []
            for ln in sorted(live_names):
                pats += ['self.%s(' % ln, 'Self::%s(' % ln]
            for extra_r in [x for x in opts.get('redirect', '').split(',') if x]:
                pats.append(extra_r + '(')
            for pat in pats:
                if find_code_occurrences(text0, toks0, ci0, 0, len(ci0) - 1, pat):
                    b2['_rewrites'].append((pat, pat[:-1] + '__live(', 'all'))
            o2 = dict(copts); o2.update(opts); o2['mode'] = 'absent'; o2['rename'] = name + '__live'
            txt = extract_fn(item, o2, b2, u.rewrites)
            check_erasure(item, txt)
            sha = hashlib.sha256(' '.join(code_texts(item.text)).encode()).hexdigest()
            u.functions.append({'name': name + '__live', 'orig_name': name, 'kind': 'fn', 'path': path, 'impl': opts.get('impl'), 'line': item.line,
                                'sha256': sha, 'mode': 'absent', 'stub': False, 'seg': len(u.segments), 'spec': (f, n), 'clauses': count_clauses(b2), 'live': True})
            u.emit('/*@X live variant of %s::%s L%d*/\n' % (path, name, item.line), ('spec', f, n))
            u.emit(txt + '\n', ('src', path, item.line, f, n))
            i = nxt; continue
        if words[0] == 'fragment':
            # //@ fragment <path> <fn> [impl=..] first="<code prefix>" [firstn=k] last="<code prefix>" [lastn=k] [mode=..]
            # followed by blocks: //@ header (hand-written signature of the synthetic function) and //@ sig (its contract).
            # Rule R6: the statements from the one starting at `first` to the end of the one starting at `last` are pasted verbatim
            # as the body; the surrounding control flow of <fn> is NOT verified.
            words = shlex.split(d)
            rest, opts = parse_kv(words[1:])
            blocks, nxt = parse_extract_blocks(lines, i)
            path, name = rest[0], rest[1]
            item = find_item(path, 'fn', name, opts.get('impl'))
            text = item.text; toks = tokenize(text); ci = code_tokens(toks)
            occ1 = find_code_occurrences(text, toks, ci, 0, len(ci) - 1, opts['first'])
            # until="<code prefix>" [untiln=k] instead of last=: the fragment ends right BEFORE the statement starting with that prefix, so that
            # statements inserted anywhere between `first` and that statement are part of the fragment
            if 'until' in opts and 'last' not in opts: opts['last'] = opts['until']; opts['lastn'] = opts.get('untiln', '1')
            occ2 = find_code_occurrences(text, toks, ci, 0, len(ci) - 1, opts['last'])
            n1 = int(opts.get('firstn', 1)); n2 = int(opts.get('lastn', 1))
            if n1 > len(occ1) or n2 > len(occ2): raise GenErr('%s: fragment anchors not found' % name)
            s0 = occ1[n1 - 1][0]
            # end of the statement that starts at `last`
            pp = next(k for k in range(len(ci)) if toks[ci[k]][2] >= occ2[n2 - 1][0])
            depth = 0; e0 = None
            if 'until' in opts: e0 = occ2[n2 - 1][0]; pp = len(ci)
            while pp < len(ci):
                y = toks[ci[pp]]
                if y[0] == 'punct':
                    if y[1] in OPEN: depth += 1
                    elif y[1] in CLOSE:
                        depth -= 1
                        # lastexpr=1: `last` starts the tail expression of its block; the fragment ends where that block closes
                        # lastexpr=1: `last` starts the tail expression of its block; toblockend=1: the fragment runs to the end of the block `last` is in (whatever statements follow it)
                        if depth < 0 and (opts.get('lastexpr') == '1' or opts.get('toblockend') == '1'): e0 = y[2]; break
                        # lastblock=1: `last` starts a block statement (for/while/if); the fragment ends with its closing brace
                        if depth == 0 and y[1] == '}' and opts.get('lastblock') == '1':
                            # an if-statement extends over its `else` chain
                            if pp + 1 < len(ci) and toks[ci[pp + 1]][1] == 'else': pp += 1; continue
                            e0 = y[3]; break
                    elif y[1] == ';' and depth == 0 and opts.get('lastblock') != '1' and opts.get('toblockend') != '1': e0 = y[3]; break
                pp += 1
            if e0 is None or e0 <= s0: raise GenErr('%s: fragment end not found' % name)
            import types
            frag = types.SimpleNamespace(text=text[s0:e0], name=name + '#fragment', line=item.line + text.count('\n', 0, s0), path=path, kind='fn', impl=item.impl)
            fblocks = {'_rewrites': blocks.get('_rewrites', []), '_lines': {}}
            for kx, vx in blocks.items():
                if kx.startswith('before ') or kx.startswith('after ') or kx.startswith('afterloop ') or kx.startswith('loop') or kx.startswith('blockend ') or kx.startswith('fmax') or kx.startswith('iter'): fblocks[kx] = vx
            wrapper = types.SimpleNamespace(text='fn verif_frag() {' + frag.text + '}', name=frag.name, line=frag.line, path=path, kind='fn', impl=item.impl)
            o2 = dict(opts); o2.pop('first', None); o2.pop('last', None); o2.pop('lastexpr', None); o2.pop('lastblock', None); o2.pop('until', None); o2.pop('untiln', None); o2.pop('toblockend', None)
            body = extract_fn(wrapper, o2, fblocks, u.rewrites)
            # strip the synthetic wrapper again: keep what is between the first '{' and the last '}'
            inner = body[body.index('{') + 1: body.rindex('}')]
            check_erasure(types.SimpleNamespace(text=frag.text, name=frag.name), inner)
            header = blocks.get('header', '').strip()
            if not header: raise GenErr('%s: fragment needs a //@ header block' % name)
            m2 = re.search(r'fn\s+(\w+)', header)
            fname = m2.group(1) if m2 else name + '_frag'
            sha = hashlib.sha256(' '.join(code_texts(frag.text)).encode()).hexdigest()
            u.rewrites.append({'rule': 'R6', 'fn': fname, 'before': 'statements of %s::%s from %r to %r' % (path, name, opts['first'], opts['last']), 'after': 'body of synthetic fn: ' + header[:120]})
            u.functions.append({'name': fname, 'orig_name': name, 'kind': 'fn', 'path': path, 'impl': opts.get('impl'), 'line': frag.line, 'sha256': sha,
                                'mode': opts.get('mode', 'absent'), 'stub': False, 'seg': len(u.segments), 'spec': (f, n), 'clauses': count_clauses(blocks), 'fragment': True})
            u.emit('/*@X fragment of %s::%s L%d*/ ' % (path, name, frag.line) + G('header', '\n' + header + '\n' + blocks.get('sig', '').rstrip() + '\n{\n' + blocks.get('start', '').rstrip() + '\n'), ('spec', f, n))
            u.emit(inner + G('close', '\n' + blocks.get('tail', '').rstrip() + '\n}') + '\n', ('src', path, frag.line, f, n))
            i = nxt; continue
        if words[0] == 'import':
            # //@ import <unit> fn <path> <name> [impl=..]
            rest, opts = parse_kv(words[1:])
            src_unit, kind, path, name = rest[0], rest[1], rest[2], rest[3]
            contracts = unit_contracts(src_unit)
            key = (path, name, norm(opts['impl']) if 'impl' in opts else None)
            if key not in contracts:
                raise GenErr('%s:%d import: unit %s has no contract for %s' % (f, n, src_unit, key))
            copts, cblocks = contracts[key]
            item = find_item(path, 'fn', name, opts.get('impl'))
            sblocks = {'sig': cblocks.get('sig', ''), '_rewrites': [], '_lines': {}}
            o2 = dict(copts); o2.update(opts)
            txt = extract_fn(item, o2, sblocks, [], as_stub=True)
            u.imports.append({'name': o2.get('rename', name), 'from_unit': src_unit, 'path': path})
            u.functions.append({'name': o2.get('rename', name), 'orig_name': name, 'kind': 'fn', 'path': path, 'impl': opts.get('impl'),
                                'line': item.line, 'sha256': None, 'mode': None, 'stub': True, 'from_unit': src_unit,
                                'seg': len(u.segments), 'spec': (f, n), 'clauses': 0})
            u.emit('#[verifier::external_body] /*@I contract proved in unit %s*/\n' % src_unit, ('spec', f, n))
            u.emit(txt + '\n', ('src', path, item.line, f, n))
            i += 1; continue
        raise GenErr('%s:%d unknown directive %r' % (f, n, d))
    return u


def count_clauses(blocks):
    n = 0
    for k, v in blocks.items():
        if k.startswith('_'): continue
        # count top-level commas-terminated clauses roughly: lines that end with ',' or keywords
        for line in v.split('\n'):
            s = line.strip()
            if not s or s.startswith('//'): continue
            if s.endswith(',') or s.endswith(';'): n += 1
    return n


def check_erasure(item, generated):
    a = code_texts(item.text)
    try:
        b = code_texts(erase(generated))
    except TokErr as e:
        raise GenErr('erasure check: cannot tokenize generated text for %s: %s' % (item.name, e))
    if a != b:
        # find first diff
        k = 0
        while k < min(len(a), len(b)) and a[k] == b[k]: k += 1
        raise GenErr('erasure check failed for %s at token %d: %r vs %r' % (item.name, k, a[k:k + 5], b[k:k + 5]))


def assemble(u):
    out = []; offs = []; pos = 0
    for k, (t, o) in enumerate(u.segments):
        offs.append(pos); out.append(t); pos += len(t)
    text = ''.join(out)
    u.text = text; u.seg_offsets = offs
    u.line_starts = [0] + [m.end() for m in re.finditer('\n', text)]
    for fn in u.functions:
        s = fn['seg']
        fn['out_start'] = offs[s]
        fn['out_end'] = offs[s + 1] + len(u.segments[s + 1][0])
    return text


def origin_of(u, line, col=1):
    """map generated (line, col) to origin description + owning extracted function (or None)"""
    if line < 1 or line > len(u.line_starts): return ('?', None)
    off = u.line_starts[line - 1] + max(col - 1, 0)
    k = bisect.bisect_right(u.seg_offsets, off) - 1
    t, o = u.segments[k]
    owner = None
    for fn in u.functions:
        if fn['out_start'] <= off < fn['out_end']:
            owner = fn; break
    if o[0] == 'spec':
        rel = os.path.relpath(o[1], ROOT)
        return ('%s:%d' % (rel, o[2] + u.text.count('\n', u.seg_offsets[k], off)), owner)
    # src segment: figure out whether off is inside a ghost splice
    segtext = t; local = off - u.seg_offsets[k]
    # inside /*@G label*/ ... /*@/G*/ ?
    for m in ERASE_G.finditer(segtext):
        if m.start() <= local < m.end():
            lab = re.match(r'/\*@G (.*?)\*/', m.group(0), re.S).group(1)
            # line within the ghost block
            gl = segtext.count('\n', m.start(), local)
            return ('ghost[%s]+%d' % (lab, gl), owner)
    # real source: count source newlines before `local`, skipping ghost blocks and undoing rewrites
    srcline = o[2]; pos = 0
    for m in SENT.finditer(segtext):
        if m.start() >= local: break
        srcline += segtext.count('\n', pos, m.start())
        if m.group(0).startswith('/*@R'):
            srcline += base64.urlsafe_b64decode(m.group(2)).decode().count('\n')
        pos = m.end()
    if pos <= local:
        srcline += segtext.count('\n', pos, local)
    return ('%s:%d' % (o[1], srcline), owner)


SENT = re.compile(r'/\*@G .*?\*/.*?/\*@/G\*/|/\*@R(\w+) ([A-Za-z0-9+/=_-]*)\*/.*?/\*@/R\*/', re.S)


def scan_trusted(text):
    """mechanical scan for assumption-introducing constructs in the generated file"""
    pats = [r'\bassume\s*\(', r'\badmit\s*\(', r'external_body', r'assume_specification', r'\buninterp\b', r'\baxiom\b',
            r'#\[verifier::external', r'exec_allows_no_decreases_clause', r'broadcast use']
    hits = []
    lines = text.split('\n')
    for n, l in enumerate(lines, 1):
        code = l.split('//')[0]
        for p in pats:
            if re.search(p, code):
                # describe by the next fn signature
                desc = code.strip()
                if 'external_body' in code or 'external' in code:
                    for l2 in lines[n:n + 4]:
                        if re.search(r'\bfn\b', l2): desc = desc + ' ' + l2.strip(); break
                hits.append((p, n, desc[:200]))
    return hits


if __name__ == '__main__':
    u = generate(sys.argv[1])
    text = assemble(u)
    sys.stdout.write(text)
